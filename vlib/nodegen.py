"""Generators for the suite `node` (whole nodes in a simulated network), shared by C08, C09, C10, C14, C15 and the node-level parts of C01/C02/C05/C12/C13."""
from .core import Script, hx
from .initgen import algos_str

CHACHA = algos_str(False, [("chacha", 400.0)])
DEFAULT = algos_str(False, [("aes128", 600.0), ("aes256", 500.0), ("chacha", 400.0)])


def ip4(n):
    return "0a0000%02x" % n


def node_line(port, mode="router", dev="tun", pt=300, ka="-", st=300, claims=None, key=0, trust=(0, 1, 2), algos=CHACHA, nat=0, adv=None):
    if claims is None:
        claims = ["%s/32" % ip4(port)] if dev == "tun" else []
    return "nnode %d mode=%s dev=%s pt=%d ka=%s st=%d claims=%s key=%d trust=%s algos=%s nat=%d%s" % (
        port, mode, dev, pt, ka, st, ",".join(claims) if claims else "-", key, ",".join(map(str, trust)) if trust else "-", algos, nat,
        " adv=%s" % ",".join(adv) if adv else "")


def ipv4_packet(src, dst, extra=b""):
    return bytes([0x45, 0, 0, 20 + len(extra), 0, 0, 0, 0, 64, 1, 0, 0]) + bytes.fromhex(src) + bytes.fromhex(dst) + extra


def eth_frame(dst_mac, src_mac, vlan=None, body=b"\x08\x00hello"):
    tag = b"" if vlan is None else bytes([0x81, 0x00, (vlan >> 8) & 255, vlan & 255])
    return bytes.fromhex(dst_mac) + bytes.fromhex(src_mac) + tag + body


def drain(n=12):
    return ["ndeliver 0"] * n


def second(ports, t):
    """one simulated second: housekeeping at every node, then delivery of what is in flight"""
    ops = ["ntime %d" % t]
    for p in ports:
        ops.append("nhk %d" % p)
    return ops + drain(4 * len(ports))


def mesh(rng, nports, mode="router", dev="tun", algos=CHACHA, pt=300, nkeys=3, **kw):
    ops = ["nkeys %d %s" % (nkeys, rng.bytes(6).hex())]
    for p in range(1, nports + 1):
        ops.append(node_line(p, mode=mode, dev=dev, key=(p - 1) % nkeys, trust=tuple(range(nkeys)), algos=algos, pt=pt, **kw))
    return ops


def connect_chain(nports):
    ops = []
    for p in range(1, nports):
        ops.append("nconnect %d p%d" % (p, p + 1))
        ops += drain(6)
    return ops


def basic_script(rng, name, nports=3, seconds=6, mode="router", dev="tun", algos=CHACHA):
    ports = list(range(1, nports + 1))
    ops = mesh(rng, nports, mode=mode, dev=dev, algos=algos)
    ops += connect_chain(nports)
    t = 0
    for _ in range(seconds):
        t += 1
        ops += second(ports, t)
        # traffic
        for _ in range(2):
            a, b = rng.choice(ports), rng.choice(ports)
            if dev == "tun":
                ops.append("nframe %d %s" % (a, hx(ipv4_packet(ip4(a), ip4(b) if rng.chance(4, 5) else "0b000001", rng.bytes(rng.below(8))))))
            else:
                macs = ["02000000000%d" % x for x in ports]
                ops.append("nframe %d %s" % (a, hx(eth_frame(rng.choice(macs + ["ffffffffffff"]), macs[a - 1], rng.choice([None, None, 0, 1, 0x67, 0xfff, 0xe000])))))
            ops += drain(nports)
    return Script(name, ops, {"suite": "node", "noshrink": any(o.startswith("nexpect") for o in ops)})


def attack_script(rng, name, nports=2, seconds=8, mode="router", dev="tun", algos=CHACHA, long_gap=None):
    """establish a mesh, then replay / mutate / inject datagrams from the wire log with various claimed sources, interleaved with time and traffic"""
    ports = list(range(1, nports + 1))
    ops = mesh(rng, nports, mode=mode, dev=dev, algos=algos)
    ops += connect_chain(nports)
    t = 0
    nw = 4 * nports           # rough lower bound of the wire log size after the handshakes
    for s in range(seconds):
        t += 1 if long_gap is None else rng.choice([1, 1, 2, 5, long_gap])
        ops += second(ports, t)
        nw += nports
        for _ in range(rng.range(1, 4)):
            k = rng.below(100)
            victim = rng.choice(ports)
            if k < 45:
                w = rng.below(nw)
                src = rng.choice(["orig", "orig", "p%d" % rng.choice(ports), "p77"])
                mut = ""
                if rng.chance(1, 2):
                    mut = " " + rng.choice(["flip=%d" % rng.below(1200), "trunc=%d" % rng.below(160), "set=%d:%d" % (rng.below(12), rng.below(256)), "app=00"])
                ops.append("nreplay w%d %d %s%s" % (w, victim, src, mut))
            elif k < 70:
                n = rng.choice([0, 1, 2, 5, 8, 23, 24, 25, 40, 80, rng.below(200)])
                body = bytearray(rng.bytes(n))
                if n and rng.chance(2, 3):
                    body[0] = rng.choice([0xff, 0, 1, 2, 3, 4, 0x10, 0xfe])
                ops.append("ninject %d %s %s" % (victim, rng.choice(["p%d" % rng.choice(ports), "p77", "p78"]), hx(bytes(body))))
            else:
                a, b = rng.choice(ports), rng.choice(ports)
                ops.append("nframe %d %s" % (a, hx(ipv4_packet(ip4(a), ip4(b), rng.bytes(4)) if dev == "tun" else eth_frame("02000000000%d" % b, "02000000000%d" % a))))
            ops += drain(3)
    return Script(name, ops, {"suite": "node", "noshrink": any(o.startswith("nexpect") for o in ops)})


def long_script(rng, name, nports=2, total=400, step_choices=(1, 1, 1, 30, 59), mode="router", dev="tun", algos=CHACHA, pt=300):
    """many seconds: key rotation (every 120 ticks), announcements, peer timeouts, reconnects"""
    ports = list(range(1, nports + 1))
    ops = mesh(rng, nports, mode=mode, dev=dev, algos=algos, pt=pt)
    ops.append("npeer 1 p2")
    ops += drain(6)
    for p in range(2, nports):
        ops.append("nconnect %d p%d" % (p, p + 1))
        ops += drain(6)
    t = 0
    while t < total:
        t += 1
        ops += second(ports, t)
        if rng.chance(1, 10):
            a, b = rng.choice(ports), rng.choice(ports)
            ops.append("nframe %d %s" % (a, hx(ipv4_packet(ip4(a), ip4(b), rng.bytes(4)))))
            ops += drain(2)
    return Script(name, ops, {"suite": "node", "noshrink": any(o.startswith("nexpect") for o in ops)})


def c08_script(rng, name, thorough):
    """receiver states {unknown, pending as initiator, pending as responder, established (with/without lingering handshake), closing} x datagram lengths 0..80 with
    structured first bytes x random bodies; truncations / length corruptions of genuine datagrams from the wrong party; sequences"""
    ops = mesh(rng, 3)
    # node 1: established with 2 (lingering handshake for 60 s), pending as initiator towards 9 (nobody there), node 3: pending responder (ping delivered, pong lost)
    ops += ["nconnect 1 p2"] + drain(6)
    ops += ["nconnect 1 p9", "ndrop 0"]
    ops += ["nconnect 3 p1", "ndeliver 0", "ndrop 0"]           # node 1 now has a pending responder entry for p3
    srcs = ["p2", "p9", "p3", "p77"]
    firsts = [0xff, 0, 1, 2, 3, 4, 5, 0x10, 0xfe, 0x80]
    lens = range(0, 81) if thorough else [0, 1, 2, 7, 8, 9, 15, 16, 23, 24, 25, 26, 40, 41, 79, 80]
    # the receive buffer is reused: what the previous datagram left behind x datagrams too short to have a first byte of their own
    for stale in ("ff" + rng.bytes(20).hex(), "ff", "00" + rng.bytes(30).hex(), "10" + rng.bytes(30).hex(), "01"):
        for src in srcs:
            ops += ["nconnect 1 p9", "ndrop 0", "nhk 3", "ndeliver 0", "ndrop 0"]          # re-arm the pending attempts
            ops.append("ninject 1 p77 %s" % stale)
            ops.append("ninject 1 %s -" % src)
            ops.append("ninject 1 p78 %s" % stale)
            ops.append("ninject 1 %s %s" % (src, rng.choice(["ff", "00", "10"])))
    for n in lens:
        for src in srcs:
            for fb in (firsts if thorough else [rng.choice(firsts), 0xff, 0]):
                body = bytearray(rng.bytes(n))
                if n:
                    body[0] = fb
                ops.append("ninject 1 %s %s" % (src, hx(bytes(body))))
    # genuine datagrams from the wrong party / truncated / with corrupted length fields
    for w in range(0, 8):
        for src in srcs:
            # re-arm the receiver states first: an earlier (rightly) fatal datagram may have closed the pending attempts
            ops += ["nconnect 1 p9", "ndrop 0", "nhk 3", "ndeliver 0", "ndrop 0"]
            # verbatim, twice in a row: the first copy may consume one-shot state (the ephemeral key) without closing the attempt
            ops.append("nreplay w%d 1 %s" % (w, src))
            ops.append("nreplay w%d 1 %s" % (w, src))
            for tag in (1, 2, 3, 4, 5):
                ops.append("nreplay w%d 1 %s tlvlen=%d:%s" % (w, src, tag, rng.choice(["ffff", "fff8", "fff7", "0000", "8000"])))
            # the signature-length byte (65 bytes from the end of a handshake datagram) set above and below 64, the signature replaced along with it
            for v in ((0x41, 0xff, 0x60, 0x00, 0x3f, 0x80) if thorough else (0x41, 0xff, rng.choice([0x60, 0x00, 0x3f, 0x80]))):
                ops.append("nreplay w%d 1 %s endhex=%02x%s" % (w, src, v, rng.bytes(64).hex()))
            for _ in range(6 if thorough else 2):
                ops.append("nreplay w%d 1 %s %s" % (w, src, rng.choice(["trunc=%d" % rng.below(200), "set=%d:%d" % (rng.choice([10, 11, 13, 14, 34, 35, 36, 37, 70, 71]), rng.below(256)),
                                                                    "flip=%d" % rng.below(1400), "app=%s" % rng.bytes(rng.range(1, 5)).hex()])))
    # genuine key header (salt + key hash) of a handshake datagram, followed by a forged field with an extreme length
    for w in (0, 1, 2):
        for field in (1, 2, 3, 4, 5, 6, 0x7f):
            for ln in ("fff7", "fff8", "ffff", "8000", "0000", "0014"):
                ops.append("nreplay w%d 1 %s trunc=9 app=%02x%s%s" % (w, rng.choice(srcs), field, ln, rng.bytes(rng.choice([0, 2, 20])).hex()))
    # large datagrams
    for n in ([100, 1000, 9000, 65000] if thorough else [100, 3000]):
        ops.append("ninject 1 p77 %s" % hx(bytes([0xff]) + rng.bytes(n)))
        ops.append("ninject 1 p2 %s" % hx(bytes([rng.choice([0, 1, 2, 3])]) + rng.bytes(n)))
    # the connection must still work afterwards
    ops += ["ntime 1", "nhk 1", "nhk 2"] + drain(8)
    ops += ["nframe 1 %s" % hx(ipv4_packet(ip4(1), ip4(2), b"ping")), "ndeliver 0", "nframe 2 %s" % hx(ipv4_packet(ip4(2), ip4(1), b"pong")), "ndeliver 0"]
    return Script(name, ops, {"suite": "node", "noshrink": any(o.startswith("nexpect") for o in ops)})


def c09_script(rng, name, nports, offsets, mode="router", dev="tun", probe_seconds=40):
    """re-injection of every datagram seen on the wire at later time offsets, with original / other / unknown source, verbatim and edited; then a probe phase"""
    ports = list(range(1, nports + 1))
    ops = mesh(rng, nports, mode=mode, dev=dev)
    ops += connect_chain(nports)
    t = 0
    for _ in range(2):
        t += 1
        ops += second(ports, t)
    ops += ["nframe 1 %s" % hx(ipv4_packet(ip4(1), ip4(2), b"data") if dev == "tun" else eth_frame("020000000002", "020000000001")), "ndeliver 0"]
    nw = 5 * nports + 2
    last = 0
    for off in offsets:
        # advance time second by second (bounded: long gaps are taken in one jump followed by housekeeping)
        target = 2 + off
        while t < target:
            # second by second: the handshake linger and the rotation counter count housekeeping calls, not clock time
            t += 1
            ops.append("ntime %d" % t)
            for p in ports:
                ops.append("nhk %d" % p)
            ops += drain(2 * len(ports))
        for w in range(0, nw):
            victim = rng.choice(ports)
            for src in (["orig", "p%d" % rng.choice(ports), "p77"] if rng.chance(1, 3) else ["orig"]):
                ops.append("nreplay w%d %d %s" % (w, victim, src))
                if rng.chance(1, 3):
                    ops.append("nreplay w%d %d %s %s" % (w, victim, src, rng.choice(["flip=%d" % rng.below(64), "flip=%d" % rng.below(1000), "set=%d:255" % rng.range(1, 7), "trunc=%d" % rng.below(120)])))
                if rng.chance(1, 2):
                    # modified replay: one length field of the captured handshake datagram edited (no effect on other datagrams)
                    ops.append("nreplay w%d %d %s tlvlen=%d:%s" % (w, victim, src, rng.choice([1, 2, 3, 4, 5, 5, 5]), rng.choice(["ffff", "fff8", "fff7", "0000", "8000", "0100"])))
        ops += drain(6)
    # probe phase: one frame per second in both directions
    for _ in range(probe_seconds):
        t += 1
        ops += second(ports, t)
        a, b = 1, 2
        for x, y in ((a, b), (b, a)):
            ops.append("nframe %d %s" % (x, hx(ipv4_packet(ip4(x), ip4(y), rng.bytes(3)) if dev == "tun" else eth_frame("02000000000%d" % y, "02000000000%d" % x))))
            ops.append("ndeliver 0")
    ops.append("nexpect mesh " + " ".join(map(str, ports)))
    return Script(name, ops, {"suite": "node", "noshrink": any(o.startswith("nexpect") for o in ops)})


def c10_script(rng, name, nports, mode, dev, length, **kw):
    """frames (destination claimed / learned / unknown / broadcast / own) injected at any node, conservation checked per step"""
    ports = list(range(1, nports + 1))
    ops = mesh(rng, nports, mode=mode, dev=dev, **kw)
    # full mesh by a chain plus peer exchange
    ops += connect_chain(nports)
    t = 0
    for _ in range(3):
        t += 1
        ops += second(ports, t)
    # datagrams from addresses that are no peers (unknown, pending as initiator, pending as responder) must never reach the interface
    probe = ipv4_packet(ip4(2), ip4(1), b"x") if dev == "tun" else eth_frame("020000000001", "020000000002")
    ops += ["nconnect 1 p40", "ndrop %d" % 0]
    ops += ["nkeys-noop"] * 0
    for src in ("p40", "p41"):
        for ty in (0, 1, 2, 255, 0x10):
            ops.append("ninject 1 %s %s" % (src, hx(bytes([ty]) + probe)))
    for _ in range(length):
        a = rng.choice(ports)
        k = rng.below(6)
        if dev == "tun":
            dst = [ip4(rng.choice(ports)), ip4(rng.choice(ports)), "0b000001", "ffffffff", ip4(a), "0a0000ff"][k]
            f = ipv4_packet(ip4(a), dst, rng.bytes(rng.below(20)))
            if rng.chance(1, 15):
                f = rng.bytes(rng.below(30))          # not a packet at all
        else:
            macs = ["02000000000%d" % x for x in ports]
            dstm = [rng.choice(macs), rng.choice(macs), "ffffffffffff", "0200000000aa", macs[a - 1], "01005e000001"][k]
            f = eth_frame(dstm, macs[a - 1] if rng.chance(4, 5) else rng.choice(macs), rng.choice([None, None, None, 0, 1, 0x67, 0xfff, 0xe001]))
        ops.append("nframe %d %s" % (a, hx(f)))
        ops += drain(nports)
        if rng.chance(1, 8):
            t += rng.choice([1, 1, 5])
            ops += second(ports, t)
    return Script(name, ops, {"suite": "node", "noshrink": any(o.startswith("nexpect") for o in ops)})


def c14_graph_script(rng, name, n, edges, nat=None, seconds=12, mode="router", dev="tun", pt=300, algos=CHACHA):
    """connect instructions form a connected graph: full mesh expected after a few peer-exchange intervals"""
    ports = list(range(1, n + 1))
    ops = ["nkeys 3 %s" % rng.bytes(6).hex()]
    for p in ports:
        ops.append(node_line(p, mode=mode, dev=dev, key=(p - 1) % 3, trust=(0, 1, 2), pt=pt, ka="1", nat=(nat or {}).get(p, 0), algos=algos))
    for (a, b) in edges:
        ops.append("npeer %d p%d" % (a, b))
        ops += drain(6)
    t = 0
    for _ in range(seconds):
        t += 1
        ops += second(ports, t)
        ops += drain(6 * n)
    ops.append("nexpect mesh " + " ".join(map(str, ports)))
    return Script(name, ops, {"suite": "node", "noshrink": any(o.startswith("nexpect") for o in ops)})


def connected_graphs(n):
    """all connected labelled graphs on n nodes (as edge lists with a < b)"""
    import itertools
    pairs = [(a, b) for a in range(1, n + 1) for b in range(a + 1, n + 1)]
    for r in range(n - 1, len(pairs) + 1):
        for es in itertools.combinations(pairs, r):
            # connectivity
            seen = {1}
            changed = True
            while changed:
                changed = False
                for a, b in es:
                    if (a in seen) != (b in seen):
                        seen |= {a, b}
                        changed = True
            if len(seen) == n:
                yield list(es)


def self_dial_script(rng, name, in_mesh):
    """a node's handshake datagrams are looped back to it from differing source / destination addresses"""
    ops = mesh(rng, 2)
    if in_mesh:
        ops += ["nconnect 1 p2"] + drain(6)
    # node 1 dials p50 (e.g. its own port-forwarded address); the datagram comes back to node 1 from p60 (masquerading hair-pin)
    ops += ["nconnect 1 p50", "nreplay-last 1 p60"]
    # whatever node 1 answers (to p60) comes back from p50, and so on for a few rounds
    for i in range(5):
        ops += ["nreplay-last 1 %s" % ("p50" if i % 2 == 0 else "p60")]
    ops += ["ntime 1", "nhk 1", "nreplay-last 1 p60", "nreplay-last 1 p50", "ntime 2", "nhk 1"] + drain(4)
    return Script(name, ops, {"suite": "node", "noshrink": any(o.startswith("nexpect") for o in ops)})


def c15_interval_script(rng, name, own_settings, advertised):
    ops = ["nkeys 1"]
    port = 0
    for (pt, ka) in own_settings:
        port += 1
        ops.append(node_line(port, pt=pt, ka=ka, key=0, trust=(0,), algos="plain", claims=[]))
        for i, adv in enumerate(advertised):
            ops.append("nfake %d p%d %d" % (port, 100 + i, adv))
            ops.append("ntime 1")
            ops.append("nhk %d" % port)
            ops.append("nfake-clear %d" % port)
    return Script(name, ops, {"suite": "node", "noshrink": any(o.startswith("nexpect") for o in ops)})


def c15_timeout_script(rng, name, pts, silence_at, total, ka="-", shared_adv=None):
    """heterogeneous mesh; all datagrams of node 1 are dropped from time silence_at on.  `shared_adv`: every node advertises this same (private) address
    next to its real one, so each peer's address list contains an address that is also the node's own — a timed-out peer is dialled again all the same"""
    n = len(pts)
    ports = list(range(1, n + 1))
    ops = ["nkeys 3 %s" % rng.bytes(6).hex()]
    for p, pt in zip(ports, pts):
        ops.append(node_line(p, pt=pt, ka=ka, key=(p - 1) % 3, trust=(0, 1, 2), adv=[shared_adv] if shared_adv else None))
    for p in range(1, n):
        ops.append("npeer %d p%d" % (p, p + 1))
        ops += drain(6)
    if silence_at is None:
        # all nodes start and connect at time 0 and nothing is lost: membership is stable from the first second on (every node's first announcement goes out
        # with its first housekeeping call), no peer may ever be timed out
        ops.append("nexpect stable")
    t = 0
    while t < total:
        t += 1
        ops.append("ntime %d" % t)
        for p in ports:
            ops.append("nhk %d" % p)
        if silence_at is not None and t >= silence_at:
            ops.append("ndropfrom 1")
        ops += drain(5 * n)
    if silence_at is None:
        ops.append("nexpect mesh " + " ".join(map(str, ports)))
    return Script(name, ops, {"suite": "node", "noshrink": any(o.startswith("nexpect") for o in ops)})


def translated_script(rng, name, self_dial_first=False):
    """node 1 reaches node 2 through an address translation: node 2 sees it as p61. Node 2 then lists node 1 under [p61, p1];
    node 1 must adopt p61 as its own address and must not dial it.  `self_dial_first`: node 1 has dialled its own public address p61 before (the user
    listed it as a peer) and that attempt is still pending, unanswered: the address is adopted all the same"""
    ops = mesh(rng, 2, ka="1")
    if self_dial_first:
        ops += ["nconnect 1 p61", "ndrop 0"]
    def fwd(to, src):
        return ["ndrop 0", "nreplay-last %d %s" % (to, src)]
    ops += ["nconnect 1 p2"] + fwd(2, "p61")      # ping arrives from p61
    ops += fwd(1, "p2")                            # pong back
    ops += fwd(2, "p61")                           # peng
    ops += fwd(1, "p2")                            # first rotation message
    t = 0
    for _ in range(4):
        t += 1
        ops += ["ntime %d" % t, "nhk 2"]
        ops += fwd(1, "p2")                        # node 2's announcement (lists node 1 under p61, p1)
        ops += ["nhk 1"] + fwd(2, "p61")
    ops += ["nexpect own 1 p61"] + ([] if self_dial_first else ["nexpect notpending 1 p61"])
    return Script(name, ops, {"suite": "node", "noshrink": True})


def switch_timeout_script(rng, name, pt=20, st=300):
    """switch mode: addresses learned from a peer that then goes silent; after its timeout nothing may point to it and frames are flooded"""
    ports = [1, 2, 3]
    ops = mesh(rng, 3, mode="switch", dev="tap", pt=pt, st=st)
    ops += connect_chain(3)
    t = 0
    for _ in range(3):
        t += 1
        ops += second(ports, t)
    macs = ["02000000000%d" % x for x in ports]
    # everybody talks once: addresses are learned
    for a in ports:
        ops.append("nframe %d %s" % (a, hx(eth_frame("ffffffffffff", macs[a - 1]))))
        ops += drain(3)
    # node 3 goes silent
    while t < pt + 8:
        t += 1
        ops.append("ntime %d" % t)
        for p in ports:
            ops.append("nhk %d" % p)
        ops.append("ndropfrom 3")
        ops += drain(8)
        if t % 5 == 0:
            ops.append("nframe 1 %s" % hx(eth_frame(macs[2], macs[0])))
            ops += ["ndropfrom 3"] + drain(3)
    ops.append("nframe 1 %s" % hx(eth_frame(macs[2], macs[0])))
    ops += drain(3)
    return Script(name, ops, {"suite": "node"})


def backoff_script(rng, name, hours):
    """a configured peer that is never reachable: housekeeping exactly at (and next to) the predicted retry times over many hours"""
    ops = ["nkeys 1", node_line(1, key=0, trust=(0,)), "npeer 1 p9", "ndrop 0"]
    t, tries, timeout, nxt = 0, 0, 1, 0
    end = hours * 3600
    while t < end:
        t = max(t + 1, nxt)
        ops += ["ntime %d" % t, "nhk 1", "ndropfrom 1"]
        if nxt <= t:
            tries += 1
            if tries > 10:
                tries, timeout = 0, timeout * 2
            timeout = min(timeout, 3600)
            nxt = t + timeout
        if rng.chance(1, 6):
            ops += ["ntime %d" % (t + 1), "nhk 1", "ndropfrom 1"]
            t += 1
    return Script(name, ops, {"suite": "node"})


def healing_script(rng, name, nports=2, pt=60, chaos=100, drop=50, asym=None):
    """adversarial network (drop / duplicate / reorder) for `chaos` seconds, then a reliable phase of peer timeout + retry horizon; both must be connected and exchange payload"""
    ports = list(range(1, nports + 1))
    ops = ["nkeys 3 %s" % rng.bytes(6).hex()]
    for p in ports:
        ops.append(node_line(p, pt=pt, ka="-", key=(p - 1) % 3, trust=(0, 1, 2)))
    for p in range(1, nports):
        ops.append("npeer %d p%d" % (p, p + 1))
    t = 0
    while t < chaos:
        t += 1
        ops.append("ntime %d" % t)
        for p in ports:
            ops.append("nhk %d" % p)
        if asym is not None:
            ops.append("ndropfrom %d %d" % asym)
        for _ in range(4 * nports):
            k = rng.below(100)
            if asym is not None:
                ops.append("ndeliver 0")
            elif k < drop:
                ops.append("ndrop %d" % rng.below(3))
            elif k < drop + 10:
                ops.append("ndup %d" % rng.below(3))
            else:
                ops.append("ndeliver %d" % rng.choice([0, 0, 1, 2]))
    horizon = pt + 120 + 30
    for _ in range(horizon):
        t += 1
        ops += second(ports, t)
    for a, b in ((1, 2), (2, 1)):
        ops.append("nframe %d %s" % (a, hx(ipv4_packet(ip4(a), ip4(b), b"heal"))))
        ops.append("ndeliver 0")
    ops.append("nexpect mesh " + " ".join(map(str, ports)))
    return Script(name, ops, {"suite": "node", "noshrink": True})


def half_open_script(rng, name, pts=(60, 900)):
    """the handshake ends half-open: ping and pong arrive, the final message and everything else node 1 sends is lost until node 2 has given the attempt up.
    Node 1 holds a session node 2 does not have.  Node 2 advertises a much longer peer timeout than node 1's own: node 1 expires the silent peer after ITS OWN
    timeout, dials again, and within its peer timeout + retry horizon of reliable delivery both are connected and exchange payload."""
    ops = ["nkeys 2 %s" % rng.bytes(6).hex(), node_line(1, pt=pts[0], ka="-", key=0, trust=(0, 1)), node_line(2, pt=pts[1], ka="-", key=1, trust=(0, 1))]
    ops += ["npeer 1 p2", "ndeliver 0", "ndeliver 0", "ndropfrom 1 2"]
    t = 0
    for _ in range(135):
        t += 1
        ops += ["ntime %d" % t, "nhk 1", "ndropfrom 1 2", "nhk 2"] + ["ndeliver 0", "ndropfrom 1 2"] * 3
    for _ in range(pts[0] + 120 + 30):
        t += 1
        ops += second([1, 2], t)
    for a, b in ((1, 2), (2, 1)):
        ops.append("nframe %d %s" % (a, hx(ipv4_packet(ip4(a), ip4(b), b"healed"))))
        ops.append("ndeliver 0")
    ops.append("nexpect mesh 1 2")
    return Script(name, ops, {"suite": "node", "noshrink": True})


def restart_script(rng, name, who_dials):
    """a node is restarted on the same address while its peer still holds the old session; the new handshake must replace it on both sides"""
    ops = mesh(rng, 2, pt=60)
    ops += ["npeer 1 p2"] + drain(6)
    t = 0
    for _ in range(rng.choice([2, 65])):
        t += 1
        ops += second([1, 2], t)
    ops.append("nrestart 2")
    if who_dials == 2:
        ops += ["nconnect 2 p1"]
    # if the restarted node does not dial, its peer finds out when the old session times out (peer timeout) and re-dials
    # a dialling restarted node is answered by the old session's lingering handshake (up to 60 s) before a new responder takes over
    # (lingering handshakes of old sessions answer new pings with their last message for up to 60 s; the bound of the property is peer timeout + retry horizon)
    for k in range(60 + 130):
        t += 1
        ops += second([1, 2], t)
        if k < 15 or 58 <= k < 75 or k % 20 == 0:
            # probes: whenever both ends hold a completed session for each other, each must open what the other seals
            for a, b in ((1, 2), (2, 1)):
                ops.append("nframe %d %s" % (a, hx(ipv4_packet(ip4(a), ip4(b), b"probe %d" % k))))
                ops.append("ndeliver 0")
    for a, b in ((1, 2), (2, 1), (1, 2)):
        ops.append("nframe %d %s" % (a, hx(ipv4_packet(ip4(a), ip4(b), b"after restart"))))
        ops.append("ndeliver 0")
    ops.append("nexpect mesh 1 2")
    return Script(name, ops, {"suite": "node", "noshrink": True})


def keyholder_script(rng, name, final):
    """a peer that holds the session key seals raw plaintexts (no type byte): data, unknown type, truncated node info and, last, the EMPTY
    plaintext.  Outside the outsider properties (the monitor gives no verdict); it validates the model at the point its no-panic theorem
    excludes (`NonEmptySeals`): implementation and model must agree, also on the panic."""
    ops = mesh(rng, 2) + ["npeer 1 p2"] + drain(6)
    t = 0
    for _ in range(2):
        t += 1
        ops += second([1, 2], t)
    raws = ["00" + hx(ipv4_packet(ip4(1), ip4(2), b"raw")), "05", "01", "0100", "02", "00", "03", "04" + rng.bytes(5).hex(), "00" + rng.bytes(3).hex()]
    for r in raws:
        ops += ["nseal 1 p2 " + r, "ndeliver 0"]
    ops += ["nseal 1 p9 00"]
    # ROTATION messages (type 0x10 | id (8) | len, proposed key | 0 or len, confirmed key) whose id is not newer than the receiver's: ignored, whatever the keys
    ops += ["nseal 1 p2 10" + "00" * 8 + "05" + "0102030405" + "00", "ndeliver 0"]
    if final is True or final == 1:
        ops += ["nseal 1 p2 -", "ndeliver 0"]
    elif final == 2:
        # `derive_key(private_key, msg.propose).unwrap()`: a proposed key of five bytes with a newer id (model: PeerCrypto.derivePanics)
        ops += ["nseal 1 p2 10" + "00" * 6 + "ffff" + "05" + "0102030405" + "00", "ndeliver 0"]
    elif final == 3:
        # second site: the responder's own proposal is still outstanding; 32-byte proposed key, confirmed key of five bytes
        ops += ["nseal 1 p2 10" + "00" * 6 + "ffff" + "20" + "09" * 32 + "05" + "0102030405", "ndeliver 0"]
    elif final == 4:
        # the same message to the handshake initiator (nothing proposed yet): the confirmed key is never derived, no panic
        ops += ["nseal 2 p1 10" + "00" * 6 + "ffff" + "20" + "09" * 32 + "05" + "0102030405", "ndeliver 0"]
    return Script(name, ops, {"suite": "node", "noshrink": True})


def long_session_script(rng, name, seconds, drop_at=(), replay_age=(2, 3), expect_from=None, stale_ping_at=()):
    """two nodes, one session over many rotation intervals (the rotation counter and the replay window are driven by housekeeping calls): every second a
    payload datagram in each direction; each is replayed after the receiver has ticked `replay_age` times (C03: it must be dead by then); everything in
    flight is dropped during the seconds in `drop_at` (a lost rotation message only postpones the key change, C07); at the end both sealing keys must have
    been replaced since `expect_from`"""
    ops = mesh(rng, 2) + ["npeer 1 p2"] + drain(6)
    t = 0
    marks = []          # (name, victim, emitted at second)
    while t < seconds:
        t += 1
        ops.append("ntime %d" % t)
        ops += ["nhk 1", "nhk 2"]
        if t in drop_at:
            ops += ["ndropfrom 1", "ndropfrom 2"]
        else:
            ops += drain(8)
        if t in stale_ping_at:
            # the first handshake's ping is replayed from its original source: node 2 holds a pending attempt for node 1's address for the next
            # 120 ticks, next to the established session — whose replay window must keep moving all the same
            ops += ["nreplay w0 2 orig", "ndrop 0", "ndrop 0"]
        # replays of payload datagrams whose receiver has ticked often enough since
        keep = []
        for (nm, victim, born) in marks:
            if t - born in replay_age:
                ops.append("nreplay m:%s %d orig" % (nm, victim))
            if t - born < max(replay_age):
                keep.append((nm, victim, born))
        marks = keep
        if t % 3 == 0 or t % 120 in (117, 118, 119, 0, 1, 2):
            for a, b in ((1, 2), (2, 1)):
                ops.append("nframe %d %s" % (a, hx(ipv4_packet(ip4(a), ip4(b), b"t%d" % t))))
                nm = "f%d_%d" % (t, a)
                ops += ["nmark " + nm, "ndeliver 0"]
                marks.append((nm, b, t))
    if expect_from is not None:
        ops += ["nexpect keychange 1 2 %d" % expect_from, "nexpect keychange 2 1 %d" % expect_from]
    ops.append("nexpect mesh 1 2")
    return Script(name, ops, {"suite": "node", "noshrink": True})


def star_session_script(rng, name, seconds, replay_age=(2, 3)):
    """three nodes, every node has TWO sessions: the per-second housekeeping must tick every session in every round, also in the rounds in which one of
    them emits a rotation message — a payload datagram replayed after its receiver has ticked twice is dead on every session (C03 at node level)"""
    ports = [1, 2, 3]
    ops = mesh(rng, 3) + connect_chain(3)
    t = 0
    for _ in range(3):
        t += 1
        ops += second(ports, t)
    ops.append("nexpect mesh 1 2 3")
    marks = []
    pairs = [(1, 2), (3, 2), (2, 1), (2, 3), (1, 3), (3, 1)]
    while t < seconds:
        t += 1
        ops.append("ntime %d" % t)
        ops += ["nhk 1", "nhk 2", "nhk 3"] + drain(10)
        keep = []
        for (nm, victim, born) in marks:
            if t - born in replay_age:
                ops.append("nreplay m:%s %d orig" % (nm, victim))
            if t - born < max(replay_age):
                keep.append((nm, victim, born))
        marks = keep
        if t % 7 == 0 or t % 120 in (118, 119, 0, 1, 2, 3, 4):
            for a, b in pairs:
                ops.append("nframe %d %s" % (a, hx(ipv4_packet(ip4(a), ip4(b), b"t%d" % t))))
                nm = "f%d_%d_%d" % (t, a, b)
                ops += ["nmark " + nm, "ndeliver 0"]
                marks.append((nm, b, t))
    ops.append("nexpect mesh 1 2 3")
    return Script(name, ops, {"suite": "node", "noshrink": True})


def close_during_attempt_script(rng, name, at=70):
    """node 1's first ping reaches node 2 again (a restarted instance dialling, or a late duplicate): node 2 holds an attempt for node 1's address next to the
    live session.  Then the session is closed by node 1's close message: node 2 removes the peer AND its routes at once, whatever the attempt does later"""
    ports = [1, 2]
    ops = mesh(rng, 2) + ["nconnect 1 p2"] + drain(6)
    t = 0
    while t < at:
        t += 1
        ops += second(ports, t)
    frame = lambda a, b: hx(ipv4_packet(ip4(a), ip4(b), rng.bytes(3)))
    ops += ["nframe 2 " + frame(2, 1)] + drain(3)
    ops += ["nreplay w0 2 orig", "ndrop 0", "ndrop 0"]
    ops += ["nseal 1 p2 ff"] + drain(3)
    ops += ["nframe 2 " + frame(2, 1)] + drain(3)
    for _ in range(5):
        t += 1
        ops += ["ntime %d" % t, "nhk 2", "ndropfrom 2"]
        ops += ["nframe 2 " + frame(2, 1)] + drain(2)
    return Script(name, ops, {"suite": "node", "noshrink": True})


def stale_attempt_script(rng, name, which, at, mode="router", dev="tun"):
    """one genuine handshake datagram (w0 = ping, w1 = pong, w2 = peng of the first handshake) is replayed verbatim from its original source at second
    `at`, and nothing else: the attempt it may open lives until it is given up (120 retries) - the established connection, its routes and the payload in
    both directions must not notice, neither while the attempt lives nor when it is given up"""
    ports = [1, 2]
    ops = mesh(rng, 2, mode=mode, dev=dev) + ["nconnect 1 p2"] + drain(6)
    t = 0
    def probes():
        o = []
        for x, y in ((1, 2), (2, 1)):
            o.append("nframe %d %s" % (x, hx(ipv4_packet(ip4(x), ip4(y), rng.bytes(3)) if dev == "tun" else eth_frame("02000000000%d" % y, "02000000000%d" % x))))
            o.append("ndeliver 0")
        return o
    while t < at:
        t += 1
        ops += second(ports, t)
        if t % 10 == 0:
            ops += probes()
    ops.append("nreplay w%d %d orig" % (which, 2 if which in (0, 2) else 1))
    ops += drain(4)
    for _ in range(135):
        t += 1
        ops += second(ports, t)
        if t % 4 == 0:
            ops += probes()
    ops.append("nexpect mesh 1 2")
    return Script(name, ops, {"suite": "node", "noshrink": True})


def c15_multi_interval_script(rng, name, combos, own=(3600, "-")):
    """announcement interval with several peers that were heard from at different times and advertise different timeouts: the smallest advertised
    timeout decides, whoever it belongs to"""
    ops = ["nkeys 1", node_line(1, pt=own[0], ka=own[1], key=0, trust=(0,), algos="plain", claims=[])]
    t = 0
    for pts in combos:
        for i, adv in enumerate(pts):
            t += 1
            ops.append("ntime %d" % t)
            ops.append("nfake 1 p%d %d" % (100 + i, adv))
        t += 1
        ops += ["ntime %d" % t, "nhk 1", "nfake-clear 1"]
    return Script(name, ops, {"suite": "node", "noshrink": True})


def c15_learned_timeout_script(rng, name, silence_at=12, pt=60):
    """switch mode: addresses learned from a peer that has no claims; the peer falls silent and is removed by peer timeout (shorter than the switch
    timeout): its learned routes must go with it, frames for its addresses are flooded again"""
    ports = [1, 2, 3]
    ops = mesh(rng, 3, mode="switch", dev="tap", pt=pt)
    ops += connect_chain(3)
    t = 0
    while t < silence_at + pt + 8:
        t += 1
        ops.append("ntime %d" % t)
        for p in ports:
            ops.append("nhk %d" % p)
        if t >= silence_at:
            ops.append("ndropfrom 1")
        ops += drain(12)
        if t < silence_at and t % 3 == 0:
            for a, b in ((1, 2), (1, 3), (2, 1), (3, 1), (2, 3)):
                ops += ["nframe %d %s" % (a, hx(eth_frame("02000000000%d" % b, "02000000000%d" % a))), "ndeliver 0", "ndeliver 0"]
        if t > silence_at + pt:
            ops += ["nframe 2 %s" % hx(eth_frame("020000000001", "020000000002")), "ndeliver 0", "ndeliver 0"]
    return Script(name, ops, {"suite": "node", "noshrink": True})


# ------------------------------------------------------------------------------------------------
# messages of an honest key holder with arbitrary content (`nseal`): close, keepalive, unknown types, and node
# information with any peer list / claims / timeout.  `<idN>` stands for the (random) node id of node N.

def ni_addr(a):
    """address text for the encoder: 'p7' = [::]:7 (a simulated node), or (hex ip, port)"""
    if isinstance(a, str):
        return bytes(16), int(a[1:])
    ip, port = a
    return bytes.fromhex(ip), port


def ni_addr_list(addrs, flag=0):
    v6 = [ni_addr(a) for a in addrs if len(ni_addr(a)[0]) == 16][:7]
    v4 = [ni_addr(a) for a in addrs if len(ni_addr(a)[0]) == 4][:7]
    out = "%02x" % (flag + 8 * len(v6) + len(v4))
    return out, "".join(ip.hex() + "%04x" % port for ip, port in v6 + v4)


def ni_part(tag, body_hex):
    # body may contain <idN> tokens: 16 bytes each
    n = 0
    rest = body_hex
    while "<id" in rest:
        i = rest.index("<id")
        j = rest.index(">", i)
        n += 16
        rest = rest[:i] + rest[j + 1:]
    n += len(rest) // 2
    return "%02x%04x%s" % (tag, n, body_hex)


def node_info_hex(node_id, peers=(), claims=(), peer_timeout=None, addrs=(), extra_parts=()):
    """hex text of `01 ++ NodeInfo::encode` (message type byte + node information).
    node_id: hex text or '<idN>'; peers: list of (node id or None, [addresses]); claims: list of 'hexbase/prefix'"""
    plist = ""
    for nid, pa in peers:
        fl, body = ni_addr_list(pa, 0x80 if nid is not None else 0)
        plist += fl + (nid or "") + body
    cl = ""
    for c in claims:
        base, prefix = c.split("/")
        cl += "%02x%s%02x" % (len(base) // 2, base, int(prefix))
    fl, body = ni_addr_list(addrs)
    s = ni_part(4, node_id) + ni_part(1, plist) + ni_part(2, cl)
    if peer_timeout is not None:
        s += ni_part(3, "%04x" % peer_timeout)
    for tag, b in extra_parts:
        s += ni_part(tag, b)
    s += ni_part(5, fl + body) + "00"
    return "01" + s


def full_mesh(rng, nports, seconds=3, **kw):
    ports = list(range(1, nports + 1))
    ops = mesh(rng, nports, **kw)
    ops += connect_chain(nports)
    t = 0
    for _ in range(seconds):
        t += 1
        ops += second(ports, t)
    return ops, t


def close_script(rng, name, mode="router", dev="tun", algos=CHACHA):
    """a peer says goodbye (MESSAGE_TYPE_CLOSE, as `run()` broadcasts at shutdown): it must be removed with its routes and learned
    addresses at once; frames for it are then dropped (router) or flooded; the other connection is untouched"""
    ports = [1, 2, 3]
    ops, t = full_mesh(rng, 3, mode=mode, dev=dev, algos=algos, ka="1")
    macs = ["02000000000%d" % x for x in ports]

    def frame(a, b):
        return hx(ipv4_packet(ip4(a), ip4(b), rng.bytes(3))) if dev == "tun" else hx(eth_frame(macs[b - 1], macs[a - 1]))
    for a in ports:
        for b in ports:
            if a != b:
                ops += ["nframe %d %s" % (a, frame(a, b))] + drain(3)
    ops += ["nseal 3 p1 ff"] + drain(3)             # node 3 closes towards node 1 only
    for (a, b) in ((1, 3), (1, 2), (2, 3), (2, 1)):
        ops += ["nframe %d %s" % (a, frame(a, b))] + drain(3)
    for _ in range(3):
        t += 1
        ops += second(ports, t)
    ops += ["nseal 2 p1 ff", "nseal 2 p3 ff"] + drain(4)   # node 2 shuts down
    for (a, b) in ((1, 2), (3, 2), (1, 3)):
        ops += ["nframe %d %s" % (a, frame(a, b))] + drain(3)
    return Script(name, ops, {"suite": "node"})


def announce_script(rng, name, length, mode="router", dev="tun"):
    """an established, honest peer announces arbitrary node information: claims grow, shrink, are permuted and duplicated; its peer list names
    the receiver itself (addresses must be adopted, not dialled), nodes the receiver already knows under another address (not dialled) and
    unknown nodes (dialled); advertised timeouts vary; keepalives and unknown message types in between"""
    ports = [1, 2, 3]
    ops, t = full_mesh(rng, 3, mode=mode, dev=dev, ka="1")
    universe = ["0a000100/24", "0a000180/25", "0a0001c0/26", "0a000000/8", "0a000102/32", "00000000/0", "fd000000000000000000000000000000/8", "020000000002/48"]
    for step in range(length):
        a = rng.choice([2, 3])
        k = rng.below(10)
        if k < 6:
            cl = [c for c in universe if rng.chance(1, 3)]
            rng.shuffle(cl)
            if cl and rng.chance(1, 4):
                cl.append(cl[0])
            peers = []
            if rng.chance(1, 2):
                # the receiver itself under foreign addresses
                peers.append(("<id1>", [rng.choice(["p61", "p62", ("c0a80001", 3210), ("20010db8000000000000000000000001", 3210)]) for _ in range(rng.range(1, 3))]))
            if rng.chance(1, 2):
                # a node the receiver is already connected to, listed under an address the receiver does not know
                other = 5 - a
                peers.append(("<id%d>" % other, [rng.choice(["p7%d" % other, ("c0a8000%d" % other, 3210)])]))
            if rng.chance(1, 3):
                peers.append((rng.bytes(16).hex() if rng.chance(1, 2) else None, ["p%d" % rng.range(80, 84)]))
            if rng.chance(1, 3):
                peers.append(("<id%d>" % (5 - a), ["p%d" % (5 - a)]))
            rng.shuffle(peers)
            pt = rng.choice([None, 300, 300, 60, 1, 0, 65535])
            extra = [(9, rng.bytes(rng.below(5)).hex())] if rng.chance(1, 5) else []
            ops.append("nseal %d p1 %s" % (a, node_info_hex("<id%d>" % a, peers, cl, pt, ["p%d" % a], extra)))
        elif k < 8:
            ops.append("nseal %d p1 02" % a)
        elif k < 9:
            # (no malformed ROTATION messages, type 0x10: the session parses them from the receive buffer including what is left behind the
            #  message, and a proposed key of the wrong length panics in derive_key — only a key holder can produce them; DESIGN.md, observations)
            ops.append("nseal %d p1 %s" % (a, rng.choice(["07", "03aabb", "fe00", "01", "0100", "01040010"])))
        else:
            dst = rng.choice(["0a000101", "0a0001c1", "0a000102", "0b000001", ip4(2), ip4(3)])
            ops.append("nframe 1 %s" % hx(ipv4_packet(ip4(1), dst, rng.bytes(2)) if dev == "tun" else eth_frame("020000000002", "020000000001")))
        ops += drain(4)
        # attempts towards addresses nobody listens on: drop what is still in flight
        if rng.chance(1, 4):
            t += 1
            ops += second(ports, t)
    # an announcement WITHOUT claims withdraws everything the peer claimed before (a peer that restarted without claims): nothing is routed to it any more
    for a in (2, 3):
        ops += ["nseal %d p1 %s" % (a, node_info_hex("<id%d>" % a, [], ["0a000100/24", ip4(a) + "/32"], 300, ["p%d" % a]))] + drain(4)
        ops += ["nframe 1 %s" % hx(ipv4_packet(ip4(1), "0a000101", b"to the claim") if dev == "tun" else eth_frame("020000000002", "020000000001"))] + drain(4)
        ops += ["nseal %d p1 %s" % (a, node_info_hex("<id%d>" % a, [], [], 300, ["p%d" % a]))] + drain(4)
        for d in ("0a000101", ip4(a)):
            ops += ["nframe 1 %s" % hx(ipv4_packet(ip4(1), d, b"withdrawn") if dev == "tun" else eth_frame("020000000002", "020000000001"))] + drain(4)
    return Script(name, ops, {"suite": "node"})


def plain_script(rng, name, kinds, mode="router", dev="tun", seconds=5):
    """meshes whose nodes enabled 'plain': sessions are unencrypted only where BOTH ends enabled it; traffic, announcements and
    forged datagrams in such meshes"""
    ports = list(range(1, len(kinds) + 1))
    ops = ["nkeys 2 %s" % rng.bytes(6).hex()]
    for p, plain in zip(ports, kinds):
        al = algos_str(plain, [("chacha", 400.0), ("aes128", 300.0)]) if plain != "only" else algos_str(True, [])
        ops.append(node_line(p, mode=mode, dev=dev, key=(p - 1) % 2, trust=(0, 1), algos=al, ka="1"))
    ops += connect_chain(len(ports))
    t = 0
    macs = ["02000000000%d" % x for x in ports]
    for _ in range(seconds):
        t += 1
        ops += second(ports, t)
        for _ in range(2):
            a, b = rng.choice(ports), rng.choice(ports)
            f = ipv4_packet(ip4(a), ip4(b), rng.bytes(rng.below(6))) if dev == "tun" else eth_frame(macs[b - 1], macs[a - 1])
            ops += ["nframe %d %s" % (a, hx(f))] + drain(len(ports))
        v = rng.choice(ports)
        # forged datagrams from addresses that are no peers (a plain session itself offers no protection against a spoofed source: outside the properties)
        ops.append("ninject %d %s %s" % (v, rng.choice(["p77", "p78"]), hx(bytes([rng.choice([0, 1, 2, 0xff, 0x10])]) + rng.bytes(rng.below(30)))))
        ops += drain(3)
    if all(k is True or k == "only" for k in kinds) or all(k is True for k in kinds):
        # every pair shares 'plain' (or a cipher): all sessions must be usable in both directions
        for a in ports:
            for b in ports:
                if a != b:
                    f = ipv4_packet(ip4(a), ip4(b), b"end") if dev == "tun" else eth_frame(macs[b - 1], macs[a - 1])
                    ops += ["nframe %d %s" % (a, hx(f))] + drain(len(ports))
        ops.append("nexpect mesh " + " ".join(map(str, ports)))
    return Script(name, ops, {"suite": "node", "noshrink": any(o.startswith("nexpect") for o in ops)})


def advertised_script(rng, name, seconds=8):
    """node 1 advertises further addresses of its own (config `advertise-addresses`: another port, an address with and one without port).
    They are part of its own addresses from the start and again after every periodic reset of the own-address list; peers learn them,
    pass them on, and third nodes dial them; node 1 itself never dials them, also when they come back in a peer list."""
    ops = ["nkeys 3 %s" % rng.bytes(6).hex()]
    ops.append(node_line(1, key=0, ka="1", adv=["p61", "4:c0a80001:3211", "ip4:c0a80002"]))
    ops.append(node_line(2, key=1, ka="1"))
    ops.append(node_line(3, key=2, ka="1", adv=["p63"]))
    ops += ["nexpect own 1 p61", "nexpect own 3 p63"]
    ops += connect_chain(3)
    t = 0
    for _ in range(seconds):
        t += 1
        ops += second([1, 2, 3], t) + ["ndrop 0"] * 4
    ops += ["nexpect mesh 1 2 3", "nexpect notpending 1 p61", "nexpect own 1 p61"]
    # the periodic reset of the own-address list (every 300 s) keeps the advertised addresses
    for t in (299, 300, 301, 302, 303):
        ops += second([1, 2, 3], t) + ["ndrop 0"] * 4
    ops += ["nexpect own 1 p61", "nexpect own 3 p63", "nexpect notpending 1 p61", "nexpect mesh 1 2 3"]
    return Script(name, ops, {"suite": "node", "noshrink": True})


def ipv6_packet(src, dst, extra=b""):
    return bytes([0x60, 0, 0, 0, 0, len(extra), 59, 64]) + bytes.fromhex(src) + bytes.fromhex(dst) + extra


def families_script(rng, name, seconds=4):
    """claims of every address family in the nodes' own configuration (IPv4 and IPv6 prefixes on tun devices, MAC addresses on tap devices in
    router mode), nested and overlapping; packets of both IP versions and frames routed by them"""
    ports = [1, 2, 3]
    ops = ["nkeys 3 %s" % rng.bytes(6).hex()]
    v6 = lambda n: "fd0000000000000000000000000000%02x" % n
    ops.append(node_line(1, key=0, ka="1", claims=["0a000001/32", v6(1) + "/128", "fd000000000000000000000000000000/64"]))
    ops.append(node_line(2, key=1, ka="1", claims=["0a000002/32", v6(2) + "/128", "0a000000/8"]))
    ops.append(node_line(3, key=2, ka="1", claims=["0a000003/32", v6(3) + "/128", "fd000000000000000000000000000000/8", "00000000/0"]))
    ops += connect_chain(3)
    t = 0
    for _ in range(seconds):
        t += 1
        ops += second(ports, t)
        for _ in range(4):
            a = rng.choice(ports)
            if rng.chance(1, 2):
                dst = rng.choice([v6(1), v6(2), v6(3), v6(9), "fd0100000000000000000000000000aa", "fe800000000000000000000000000001"])
                f = ipv6_packet(v6(a), dst, rng.bytes(rng.below(6)))
            else:
                f = ipv4_packet(ip4(a), rng.choice([ip4(1), ip4(2), ip4(3), "0a0000aa", "0b000001"]), rng.bytes(rng.below(6)))
            ops += ["nframe %d %s" % (a, hx(f))] + drain(3)
    return Script(name, ops, {"suite": "node"})


def nested_claims_script(rng, name, swap=False, seconds=3):
    """nested claims whose prefix lengths are NOT multiples of eight (/12, /20, /28, /44) and IPv6 claims nested below a /32: the most specific live claim
    decides, whatever the order in which the claims were announced (`swap` exchanges the claim sets, and with them the order of announcement)"""
    ports = [1, 2, 3]
    ops = ["nkeys 3 %s" % rng.bytes(6).hex()]
    db8 = "20010db8"
    ca = ["0a100000/12", db8 + "00" * 12 + "/32", "0a110100/28", db8 + "0002" + "00" * 10 + "/44"]
    cb = ["0a000000/8", db8 + "0001" + "00" * 10 + "/48", "0a110000/20", db8 + "0002" + "00" * 10 + "/47"]
    if swap:
        ca, cb = cb, ca
    ops.append(node_line(1, key=0, ka="1", claims=["0a000001/32"]))
    ops.append(node_line(2, key=1, ka="1", claims=ca + ["0a000002/32"]))
    ops.append(node_line(3, key=2, ka="1", claims=["0a000003/32"] + cb))
    ops += ["nconnect 1 p3"] + drain(6) + ["nconnect 1 p2"] + drain(6) if swap else connect_chain(3)
    t = 0
    v4 = ["0a110101", "0a11010f", "0a110110", "0a110f01", "0a111001", "0a111101", "0a100001", "0a1fffff", "0a200001", "0a0fffff", "0a800001", "0b000001"]
    v6 = [db8 + "0001" + "00" * 9 + "05", db8 + "0002" + "00" * 9 + "05", db8 + "0003" + "00" * 9 + "05", db8 + "000f" + "00" * 9 + "05", db8 + "0010" + "00" * 9 + "05",
          "20010db9" + "00" * 11 + "01", db8 + "00" * 11 + "01"]
    for _ in range(seconds):
        t += 1
        ops += second(ports, t)
    for a in (1, 2, 3):
        for d in v4:
            ops += ["nframe %d %s" % (a, hx(ipv4_packet(ip4(a), d, rng.bytes(2))))] + drain(3)
        for d in v6:
            ops += ["nframe %d %s" % (a, hx(ipv6_packet("fd0000000000000000000000000000%02x" % a, d, rng.bytes(2))))] + drain(3)
    return Script(name, ops, {"suite": "node"})


def mac_claims_script(rng, name, seconds=3):
    """tap devices in router mode: MAC addresses are claimed in the configuration, nothing is learned, unknown destinations are dropped"""
    ports = [1, 2, 3]
    macs = ["02000000000%d" % x for x in ports]
    ops = ["nkeys 3 %s" % rng.bytes(6).hex()]
    for p in ports:
        ops.append(node_line(p, mode="router", dev="tap", key=p - 1, ka="1", claims=[macs[p - 1] + "/48"] + (["020000000000/40"] if p == 3 else [])))
    ops += connect_chain(3)
    t = 0
    for _ in range(seconds):
        t += 1
        ops += second(ports, t)
        for _ in range(4):
            a = rng.choice(ports)
            dst = rng.choice(macs + ["0200000000aa", "ffffffffffff", "0300000000aa"])
            ops += ["nframe %d %s" % (a, hx(eth_frame(dst, macs[a - 1], rng.choice([None, None, 5]))))] + drain(3)
    return Script(name, ops, {"suite": "node"})


def forge_script(rng, name, cipher=3, after_rotation=False):
    """datagrams sealed by somebody who was never given a session key — under the all-zero / all-0xff key, naming every key slot (0 = the agreed key,
    1..3 = slots no key has been rotated into yet), counters in either half — sent with the address of an established peer and from elsewhere:
    payload, node information with claims, close.  Nothing may be delivered, learned, routed or closed."""
    al = algos_str(False, [({1: "aes128", 2: "aes256", 3: "chacha"}[cipher], 400.0)])
    ops, t = full_mesh(rng, 2, algos=al, ka="1")
    if after_rotation:
        while t < 125:
            t += 1
            ops += second([1, 2], t)
    plains = ["00" + hx(ipv4_packet(ip4(2), ip4(1), b"evil")), node_info_hex("<id2>", [], ["0a000000/8"], 300, ["p2"]), "ff", "02"]
    for src in ("p2", "p77"):
        for kid in (0, 1, 2, 3):
            for kind in ("zero", "ff"):
                half = rng.below(2)
                for h in (half, 1 - half) if src == "p2" else (half,):
                    ops.append("nforge 1 %s %d %s %d %d %s" % (src, cipher, kind, kid, h, rng.choice(plains)))
    # the connection is still there and works
    ops += ["nframe 2 %s" % hx(ipv4_packet(ip4(2), ip4(1), b"ok"))] + drain(2)
    ops += ["nframe 1 %s" % hx(ipv4_packet(ip4(1), ip4(2), b"ok"))] + drain(2)
    return Script(name, ops, {"suite": "node"})


def keepalive_only_script(rng, name, pt=40, total=110):
    """a peer is heard only through keepalives (its node information is lost) for much longer than the peer timeout: "no node information OR
    keepalive": it must stay connected with its routes; then it falls silent altogether and must be removed after the timeout"""
    ops = mesh(rng, 2, pt=pt)
    ops += connect_chain(2)
    t = 0
    silent_from = total - pt - 12
    while t < total:
        t += 1
        ops += ["ntime %d" % t, "nhk 1", "nhk 2", "ndropfrom 2"]          # everything node 2 sends by itself is lost
        if t < silent_from and t % 7 == 0:
            ops += ["nseal 2 p1 02"]
        ops += drain(4)
        if t % 10 == 0:
            ops += ["nframe 1 %s" % hx(ipv4_packet(ip4(1), ip4(2), b"x")), "ndrop 0"]
    return Script(name, ops, {"suite": "node"})


def translated_long_script(rng, name):
    """as `translated_script`, but kept up beyond the periodic reset of the own-address list (300 s): an address adopted from a peer's list
    stays adopted until the next reset, and after a reset it is adopted again from the next list"""
    ops = mesh(rng, 2, ka="1")

    def fwd(to, src):
        return ["ndrop 0", "nreplay-last %d %s" % (to, src)]
    ops += ["nconnect 1 p2"] + fwd(2, "p61") + fwd(1, "p2") + fwd(2, "p61") + fwd(1, "p2")
    t = 0

    def round_(t):
        o = ["ntime %d" % t, "nhk 2"] + fwd(1, "p2") + ["nhk 1"] + fwd(2, "p61")
        return o
    for _ in range(3):
        t += 1
        ops += round_(t)
    ops += ["nexpect own 1 p61"]
    for t in (150, 290, 299, 300, 301):
        ops += round_(t)
    ops += ["nexpect own 1 p61", "nexpect notpending 1 p61"]
    # seconds without a list from the peer: the adopted address must not vanish from one second to the next
    for t in (302, 303, 304):
        ops += ["ntime %d" % t, "nhk 1", "ndrop 0", "ndrop 0"]
    ops += ["nexpect own 1 p61", "nexpect notpending 1 p61"]
    return Script(name, ops, {"suite": "node", "noshrink": True})


def stale_responder_script(rng, name, pt=60, lost=100, gap=24):
    """total loss for `lost` seconds; then exactly one ping gets through and its pong is lost; total loss for another `gap` seconds (the initiator's
    attempt times out while the responder's state is still young); then reliable delivery for peer timeout + retry horizon: both must be connected
    and exchange payload — a responder state that has outlived the initiator's attempt must be given up after its own retry budget, however often
    the initiator dials again"""
    ports = [1, 2]
    ops = ["nkeys 2 %s" % rng.bytes(6).hex(), node_line(1, pt=pt, ka="-", key=0, trust=(0, 1)), node_line(2, pt=pt, ka="-", key=1, trust=(0, 1)), "npeer 1 p2", "ndrop 0"]
    t = 0
    while t < lost:
        t += 1
        ops += ["ntime %d" % t, "nhk 1", "nhk 2", "ndropfrom 1", "ndropfrom 2"]
    # one ping arrives, the pong is lost
    t += 1
    ops += ["ntime %d" % t, "nhk 1", "nhk 2", "ndeliver 0", "ndropfrom 1", "ndropfrom 2"]
    for _ in range(gap):
        t += 1
        ops += ["ntime %d" % t, "nhk 1", "nhk 2", "ndropfrom 1", "ndropfrom 2"]
    for _ in range(pt + 120 + 30):
        t += 1
        ops += second(ports, t)
    for a, b in ((1, 2), (2, 1)):
        ops.append("nframe %d %s" % (a, hx(ipv4_packet(ip4(a), ip4(b), b"heal"))))
        ops.append("ndeliver 0")
    ops.append("nexpect mesh 1 2")
    return Script(name, ops, {"suite": "node", "noshrink": True})


def reconfig_restart_script(rng, name, before, after, pt_after=None):
    """node 2 is restarted on the same address with ANOTHER configuration (cipher list / peer timeout) and dials node 1, which still holds the old session:
    the new handshake must replace the old peer record completely — session, mode (plain or sealed), advertised timeout"""
    ops = ["nkeys 2 %s" % rng.bytes(6).hex(), node_line(1, key=0, trust=(0, 1), algos=before[0], ka="1", pt=300), node_line(2, key=1, trust=(0, 1), algos=before[1], ka="1", pt=300)]
    ops += ["nconnect 2 p1"] + drain(6)
    t = 0
    for _ in range(3):
        t += 1
        ops += second([1, 2], t)
    for a, b in ((1, 2), (2, 1)):
        ops += ["nframe %d %s" % (a, hx(ipv4_packet(ip4(a), ip4(b), b"before"))), "ndeliver 0"]
    ops.append(node_line(2, key=1, trust=(0, 1), algos=after[1], ka="1", pt=pt_after or 300))
    ops += ["nconnect 2 p1"] + drain(6)
    for k in range(70):
        t += 1
        ops += second([1, 2], t)
        if k % 6 == 0:
            for a, b in ((1, 2), (2, 1)):
                ops += ["nframe %d %s" % (a, hx(ipv4_packet(ip4(a), ip4(b), b"after %d" % k))), "ndeliver 0"]
    ops.append("nexpect mesh 1 2")
    return Script(name, ops, {"suite": "node", "noshrink": True})


def nat_dialback_script(rng, name, both_nat, wait=0):
    """nodes behind the address-filtering NAT of the mock socket that dial each other: the first ping of one side is filtered (the other has not sent
    anything yet), both are in the handshake at once (dual open); after `wait` seconds of nothing but retransmissions both must be connected.
    With wait > 120 the first attempt of node 1 has been given up before node 2 dials back."""
    ops = ["nkeys 2 %s" % rng.bytes(6).hex(), node_line(1, key=0, trust=(0, 1), ka="1", nat=1 if both_nat else 0), node_line(2, key=1, trust=(0, 1), ka="1", nat=1)]
    ops += ["npeer 1 p2"] + drain(3)
    t = 0
    for _ in range(wait):
        t += 1
        ops += second([1, 2], t)
    ops += ["npeer 2 p1"] + drain(6)
    for _ in range(30):
        t += 1
        ops += second([1, 2], t)
    for a, b in ((1, 2), (2, 1)):
        ops += ["nframe %d %s" % (a, hx(ipv4_packet(ip4(a), ip4(b), b"nat"))), "ndeliver 0"]
    ops.append("nexpect mesh 1 2")
    return Script(name, ops, {"suite": "node", "noshrink": True})


def plain_long_script(rng, name, pt, seconds):
    """three nodes that all enabled 'plain', peer timeout `pt`, run for several timeouts on a delivering network: nobody times anybody out"""
    ports = [1, 2, 3]
    ops = ["nkeys 2 %s" % rng.bytes(6).hex()]
    for p in ports:
        ops.append(node_line(p, key=(p - 1) % 2, trust=(0, 1), algos=algos_str(True, []), ka="-", pt=pt))
    ops += connect_chain(3)
    t = 0
    for k in range(seconds):
        t += 1
        ops += second(ports, t)
        if k == 5:
            ops += ["nexpect mesh 1 2 3", "nexpect stable"]          # from here on: stable membership, delivering network
    ops.append("nexpect mesh 1 2 3")
    return Script(name, ops, {"suite": "node", "noshrink": True})


def late_duplicate_script(rng, name, at=70):
    """the first handshake's ping reaches node 2 again `at` seconds late (the lingering handshake of the session is gone by then): node 2 opens an attempt for
    node 1's address next to the live session.  The attempt is given up after its retry budget; afterwards node 1 restarts and dials again: the pair must
    reconnect (nothing of the abandoned attempt may block the new handshake)"""
    ops = mesh(rng, 2, pt=60) + ["npeer 1 p2"] + drain(6)
    t = 0
    while t < at:
        t += 1
        ops += second([1, 2], t)
    ops += ["nreplay w0 2 orig", "ndrop 0", "ndrop 0"]
    for _ in range(128):
        t += 1
        ops += second([1, 2], t)
    ops += ["nrestart 1", "npeer 1 p2"] + drain(6)
    for _ in range(60 + 125):
        t += 1
        ops += second([1, 2], t)
    for a, b in ((1, 2), (2, 1)):
        ops += ["nframe %d %s" % (a, hx(ipv4_packet(ip4(a), ip4(b), b"again"))), "ndeliver 0"]
    ops.append("nexpect mesh 1 2")
    return Script(name, ops, {"suite": "node", "noshrink": True})
