"""Generators for the suites `range` (op match) and `table`, shared by C11, C12, C13."""
from .core import Script, hx


def rstr(base, plen):
    return "%s/%d" % (hx(base), plen)


def range_ops(tier, rng):
    thorough = tier == "thorough"
    ops = []
    # 8-bit universe: all bases x prefix 0..20 (over-long included) x all addresses (thorough); sampled in quick
    if thorough:
        for base in range(256):
            for p in range(0, 21):
                for a in range(256):
                    ops.append("match %s %s" % (rstr(bytes([base]), p), hx(bytes([a]))))
    else:
        for _ in range(3000):
            base, a, p = rng.below(256), rng.below(256), rng.below(21)
            if rng.chance(1, 2):   # near misses: flip a single bit
                a = base ^ (1 << rng.below(8))
            ops.append("match %s %s" % (rstr(bytes([base]), p), hx(bytes([a]))))
    # 16-bit universe
    n16 = 400000 if thorough else 4000
    for _ in range(n16):
        base, p = rng.below(65536), rng.below(21)
        a = rng.below(65536) if rng.chance(1, 3) else base ^ (1 << rng.below(16)) if rng.chance(2, 3) else base
        ops.append("match %s %s" % (rstr(base.to_bytes(2, "big"), p), hx(a.to_bytes(2, "big"))))
    # random 4/6/8/16-byte addresses (and other lengths 0..16), prefix 0..255
    for _ in range(200000 if thorough else 6000):
        n = rng.choice([4, 6, 8, 16, 4, 16, rng.below(17)])
        base = bytearray(rng.bytes(n))
        p = rng.choice([rng.below(256), rng.below(8 * n + 2), 8 * n, 8 * n + 1, 0])
        a = bytearray(base)
        k = rng.below(4)
        if k == 0 and n:
            a = bytearray(rng.bytes(n))
        elif k == 1 and n:
            bit = rng.below(8 * n)
            a[bit // 8] ^= 0x80 >> (bit % 8)
        elif k == 2 and n:   # differ exactly at / just after the prefix boundary
            bit = min(max(p + rng.range(-1, 1), 0), 8 * n - 1)
            a[bit // 8] ^= 0x80 >> (bit % 8)
        if rng.chance(1, 20):   # different lengths never match
            a = bytearray(rng.bytes(rng.below(17)))
        ops.append("match %s %s" % (rstr(bytes(base), p), hx(bytes(a))))
    return ops


# universe for table scripts: 3 peers x 6 nested / overlapping ranges (IPv4), plus MACs for learning
RANGES = ["0a000000/8", "0a010000/16", "0a010200/24", "0a010203/32", "0a010000/15", "00000000/0", "0a800000/9", "0a010201/24"]
ADDRS = ["0a010203", "0a010204", "0a01ff01", "0a020304", "0b000001", "0a800001", "c0a80001"]
MACS = ["020000000001", "020000000002", "0067020000000001"]


def table_script(rng, length, name, ranges=RANGES, small_time=False):
    ct = rng.choice([5, 10, 300])
    kt = rng.choice([5, 10, 300])
    now = rng.range(1, 50)
    ops = ["tnew %d %d" % (ct, kt), "now %d" % now]
    for _ in range(length):
        k = rng.below(100)
        if k < 30:
            n = rng.choice([0, 1, 1, 2, 2, 3, 4])
            rs = [rng.choice(ranges) for _ in range(n)]
            ops.append("announce p%d %s" % (rng.range(1, 3), ",".join(rs) if rs else "-"))
        elif k < 38:
            ops.append("disconnect p%d" % rng.range(1, 3))
        elif k < 65:
            ops.append("lookup %s" % rng.choice(ADDRS + MACS))
        elif k < 75:
            ops.append("learn %s p%d" % (rng.choice(MACS + ADDRS[:2]), rng.range(1, 3)))
        elif k < 85:
            ops.append("sweep")
        else:
            dt = rng.choice([0, 1, 1, ct - 1, ct, ct + 1, kt - 1, kt, kt + 1, 2])
            now += max(dt, 0)
            ops.append("now %d" % now)
            if rng.chance(2, 3):
                ops.append("sweep")
    return Script(name, ops, {"suite": "table"})


def claim_sequences(rng, tier):
    """C12: announcement sequences of one peer over all subsets and orders of a 4-claim universe
    (grow, shrink, permute, duplicates), exhaustive to length 2 (quick) / 3 (thorough) over a sampled
    alphabet of lists, with a second peer holding overlapping claims and cached decisions in between."""
    import itertools
    univ = ["0a000000/8", "0a010000/16", "0a010200/24", "c0a80000/16"]
    lists = []
    for r in range(0, 5):
        for perm in itertools.permutations(univ, r):
            lists.append(list(perm))
    lists += [["0a000000/8", "0a000000/8"], ["0a010000/16", "0a000000/8", "0a010000/16"]]
    depth = 3 if tier == "thorough" else 2
    n = 0
    seqs = itertools.product(lists, repeat=depth)
    for seq in seqs:
        if tier != "thorough" and not rng.chance(1, 6):
            continue
        if tier == "thorough" and not rng.chance(1, 40):
            continue
        ops = ["tnew 300 300", "now 7", "announce p2 0a010000/16,c0a80000/16"]
        for cs in seq:
            ops.append("announce p1 %s" % (",".join(cs) if cs else "-"))
            ops.append("lookup 0a010203")
            ops.append("lookup c0a80101")
            ops.append("lookup 0a020202")
        n += 1
        yield Script("claimseq-%d" % n, ops, {"suite": "table"})


def table_scripts(tier, rng):
    thorough = tier == "thorough"
    n = 0
    # short scripts first (bounded-exhaustive flavour: every op kind in every position is hit many times)
    for length in range(1, 7):
        for _ in range(400 if thorough else 60):
            n += 1
            yield table_script(rng, length, "table-short-%d" % n)
    for _ in range(3000 if thorough else 150):
        n += 1
        yield table_script(rng, rng.range(20, 300 if thorough else 80), "table-long-%d" % n)
    for s in claim_sequences(rng, tier):
        yield s
