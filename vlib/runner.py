"""Decision procedure of a check (DESIGN.md section 1):

  regenerate Generated/*.lean from /repo, lake build the property's proof modules, audit axioms,
  build /repo with the guard on, run the correspondence suites (corpus first), evaluate the
  executable Spec on the implementation's transcript.

  Spec failure on the implementation          -> VIOLATION with the shrunk script as replay
                                                 (or KNOWN-FINDING if it matches a listed class)
  broken proof / translation / correspondence -> wider search for a failing input; found: as above;
                                                 not found: VIOLATION ... no-failing-input-found
"""
import collections
import importlib
import json
import os
import sys
import time

from . import core
from .core import Script, log


def batched(it, n):
    buf = []
    for x in it:
        buf.append(x)
        if len(buf) >= n:
            yield buf
            buf = []
    if buf:
        yield buf


def load_corpus(prop):
    out = []
    for suite in prop.SUITES:
        d = os.path.join(core.ROOT, "corpus", suite)
        if not os.path.isdir(d):
            continue
        for fn in sorted(os.listdir(d)):
            if fn.endswith(".ops"):
                ops = [l.rstrip("\n") for l in open(os.path.join(d, fn)) if l.strip() and not l.startswith("#")]
                out.append(Script("corpus/%s/%s" % (suite, fn), ops, {"suite": suite}))
    return out


class Stats:
    def __init__(self, prop):
        self.prop = prop
        self.evaluations = 0
        self.scripts = 0
        self.keys = set()
        self.opmix = collections.Counter()
        self.obsmix = collections.Counter()
        self.samples = []
        self.spec_fail = []      # (script, result)
        self.disagree = []       # (script, result)
        self.compared = 0

    def add(self, results):
        for r in results:
            self.scripts += 1
            s = r["script"]
            for op, io, mo, sv in zip(s.ops, r["impl"], r["model"], r["spec"]):
                self.evaluations += 1
                self.compared += 1
                self.opmix[op.split(" ", 1)[0]] += 1
                self.obsmix[self.prop.obs_class(op, io)] += 1
                k = self.prop.nontrivial_key(op, io)
                if k is not None:
                    self.keys.add(k)
            if len(self.samples) < 6 and (self.scripts in (1, 2, 3) or self.scripts % 997 == 0):
                self.samples.append({"script": s.name, "ops": s.ops[:12],
                                     "impl_obs": r["impl"][:12], "model_obs": r["model"][:12]})
            p = core.first_problem(r)
            if p is not None:
                (self.spec_fail if p[0] == "spec" else self.disagree).append(r)


def format_replay(prop, kind, script, result, extra=""):
    lines = ["# property %s  kind=%s  script=%s" % (prop.ID, kind, script.name)]
    if extra:
        lines.append("# " + extra)
    lines.append("# replay: ./check %s --replay <this file>   (op => impl observation | model observation | spec verdict)" % prop.ID)
    for i, op in enumerate(script.ops):
        io = result["impl"][i] if i < len(result["impl"]) else "?"
        mo = result["model"][i] if i < len(result["model"]) else "?"
        sv = result["spec"][i] if i < len(result["spec"]) else "?"
        lines.append("%s\t=> impl: %s | model: %s | spec: %s" % (op, io, mo, sv))
    return "\n".join(lines) + "\n"


def parse_replay(path):
    ops = []
    for l in open(path):
        l = l.rstrip("\n")
        if not l or l.startswith("#"):
            continue
        ops.append(l.split("\t")[0])
    return ops


def run_check(pid, tier, seed, replay=None, budget_s=None):
    t0 = time.time()
    prop = importlib.import_module("vlib.props." + pid)
    workdir = os.path.join(core.BUILD, "run", pid)
    os.makedirs(workdir, exist_ok=True)
    known, fixed = core.load_known_findings()
    known = [k for k in known if k["property"] == pid]

    obligations = []   # dicts: name, ok, detail
    def ob(name, ok, detail=""):
        obligations.append({"name": name, "ok": bool(ok), "detail": detail[-1500:] if detail else ""})
        if not ok:
            log("[%s] obligation FAILED: %s\n%s" % (pid, name, detail[-3000:]))

    # 1. translation
    ok, out = core.run_translator()
    ob("translate:/repo sources -> VpnCloud/Generated/*.lean", ok, out)
    # 2. proofs
    ok, out = core.build_lean(list(prop.LEAN_MODULES) + ["vpmodel"])
    ob("lake build " + " ".join(prop.LEAN_MODULES) + " vpmodel", ok, out)
    lean_ok = ok
    hits = core.source_scan(prop.LEAN_MODULES)
    ob("source scan (sorry/admit/axiom/native_decide/bv_decide/implemented_by/unsafe/partial)", not hits, "\n".join(hits))
    axioms = {}
    if lean_ok:
        axioms, aout = core.audit_axioms(pid, prop.THEOREMS, prop.LEAN_MODULES)
        for t in prop.THEOREMS:
            a = axioms.get(t)
            good = a is not None and set(a) <= core.ALLOWED_AXIOMS
            ob("theorem " + t, good, "axioms: %s" % (a,) if a is not None else "theorem missing or not checked\n" + aout[-800:])
        if tier == "thorough":
            # independent re-check of the compiled property modules
            for m in prop.LEAN_MODULES:
                with core.Lock("lake"):
                    rc, lout = core.sh(["lake", "env", "leanchecker", m], cwd=core.LEAN, timeout=1800)
                ob("leanchecker " + m, rc == 0, lout)
    else:
        for t in prop.THEOREMS:
            ob("theorem " + t, False, "lake build failed")
    # 3. implementation
    ok, out = core.build_driver()
    ob("cargo build /repo working tree with --cfg dswd_vpncloud_verif", ok, out)
    impl_ok = ok and os.path.exists(core.VPMODEL)

    stats = Stats(prop)
    rng = core.SplitMix64(seed)
    deadline = None if budget_s is None else t0 + budget_s

    known_classes = set(k["cls"] for k in known)

    def only_known(r):
        """every failing verdict of this script, taken alone, is of a listed known-finding class"""
        fails = [sv for sv in r["spec"] if sv.startswith("FAIL")]
        return bool(fails) and all(prop.classify(r["script"], {"spec": [sv], "impl": [], "model": []}) in known_classes for sv in fails)

    def explore(scripts, tag, batch_size=None):
        for batch in batched(scripts, batch_size or prop.BATCH):
            if deadline is not None and time.time() > deadline:
                break
            stats.add(core.run_scripts(batch, workdir, tag))
            # failures that are, verdict by verdict, listed known findings do not end the exploration
            fresh = [r for r in stats.spec_fail if not only_known(r)]
            if len(fresh) > 20:
                break
            if tag == "search" and fresh:
                break

    if impl_ok:
        if replay:
            explore([Script("replay:" + replay, parse_replay(replay), {})], "replay")
        else:
            explore(load_corpus(prop), "corpus")
            explore(prop.gen(tier, rng.fork("gen")), "gen")

    broken = [o for o in obligations if not o["ok"]]
    changed_src = core.changed_anchor_files(pid)
    if impl_ok and not stats.spec_fail and (broken or stats.disagree or changed_src) and tier != "thorough" and not replay:
        # wider search for a failing input (thorough-tier scopes), bounded in time.  It also runs when the
        # source files the property is anchored in differ from the tree the model was validated against
        # (FINGERPRINTS.json): that is no alarm by itself, only a reason to look as deeply as the thorough tier.
        if broken or stats.disagree:
            log("[%s] obligation broken or correspondence disagreement: running the wider search" % pid)
        else:
            log("[%s] anchored sources changed since the model was validated (%s): deepening the exploration" % (pid, ", ".join(changed_src)))
        deadline = time.time() + prop.SEARCH_BUDGET_S
        explore(prop.gen("thorough", rng.fork("search")), "search", max(1, prop.BATCH // 4))

    violations = 0
    out_lines = []
    # --- spec failures on the implementation
    reported_classes = set()
    new_fail = None
    for r in stats.spec_fail:
        if only_known(r) and prop.classify(r["script"], r) in reported_classes:
            continue            # this known finding has been reported already; no need to shrink every further instance
        s = core.shrink(r["script"], "spec", workdir) if len(r["script"].ops) > 1 and not r["script"].meta.get("noshrink") else r["script"]
        rr = core.run_scripts([s], workdir, "final")[0]
        if core.first_problem(rr) is None:   # flaky shrink: fall back to the original
            s, rr = r["script"], r
        cls = prop.classify(s, rr)
        match = [k for k in known if k["cls"] == cls]
        if match:
            if cls not in reported_classes:
                reported_classes.add(cls)
                out_lines.append("KNOWN-FINDING: property=%s %s (e.g. %s)" % (pid, match[0]["what"], s.ops[-1][:120]))
            continue
        new_fail = (s, rr)
        break
    if new_fail is not None:
        s, rr = new_fail
        path = core.write_replay(pid, "spec-%d" % seed, format_replay(prop, "spec-failure-on-implementation", s, rr))
        out_lines.append("VIOLATION property=%s replay=%s" % (pid, path))
        violations += 1
    elif broken or stats.disagree:
        detail = []
        for o in broken:
            detail.append("broken obligation: %s\n%s" % (o["name"], o["detail"]))
        if stats.disagree:
            r = stats.disagree[0]
            s = core.shrink(r["script"], "disagree", workdir) if len(r["script"].ops) > 1 and not r["script"].meta.get("noshrink") else r["script"]
            rr = core.run_scripts([s], workdir, "final")[0]
            if core.first_problem(rr) is None:
                s, rr = r["script"], r
            detail.append("correspondence: implementation and model disagree (%d scripts); first:\n%s"
                          % (len(stats.disagree), format_replay(prop, "disagreement", s, rr)))
        if not impl_ok:
            detail.append("the implementation (or vpmodel) could not be built, no search was possible")
        body = ("# property %s: no longer shown to hold; no failing input found by the search\n" % pid) + "\n".join(detail) + "\n"
        path = core.write_replay(pid, "broken-%d" % seed, body)
        out_lines.append("VIOLATION property=%s replay=%s no-failing-input-found" % (pid, path))
        violations += 1

    wall = time.time() - t0
    n_ob = len(obligations)
    n_ok = len([o for o in obligations if o["ok"]])
    coverage = {
        "obligations": n_ob,
        "discharged": n_ok,
        "checker_cmd": "cd /verif/lean && lake build %s && lake env lean /verif/.build/audit/%s.lean" % (" ".join(prop.LEAN_MODULES), pid),
        "trusted_base": prop.TRUSTED_BASE + [
            "Lean 4 kernel; axioms allowed: propext, Classical.choice, Quot.sound (audited per theorem by #print axioms)",
            "hand-written model fidelity as far as the correspondence run establishes it; Rust driver /verif/harness; orchestrator /verif/vlib",
            "translator /verif/translate: constants, interval expressions, configuration rules and comparison guards are regenerated from /repo's sources on this run "
            "(a source shape the translator cannot match is a broken obligation, never a silent default)",
            "not verified: ring (Ed25519, X25519, AEAD, SHA-2, PBKDF2, RNG), Rust std, serde_yaml, structopt; not modelled: GenericCloud::run (epoll loop), real sockets and devices, DNS, "
            "port forwarding, statistics, beacon file/command I/O, memory safety",
        ],
        "obligation_list": [{"name": o["name"], "ok": o["ok"]} for o in obligations],
        "theorem_axioms": {t: axioms.get(t) for t in prop.THEOREMS},
        "evaluations": stats.evaluations,
        "distinct_nontrivial": len(stats.keys),
        "rule": prop.RULE,
        "samples": stats.samples,
        "traces_validated_against_impl": stats.scripts,
        "disagreements_checked": stats.compared,
        "disagreements_found": len(stats.disagree),
        "spec_failures_on_impl": len(stats.spec_fail),
        "op_mix": dict(stats.opmix),
        "observation_classes": dict(stats.obsmix),
        "branches_missed": [b for b in prop.EXPECTED_CLASSES if stats.obsmix.get(b, 0) == 0] if impl_ok and not replay else [],
        "known_findings_reported": sorted(reported_classes),
        "anchored_sources_changed_since_validation": changed_src,
        "exhaustive": False,
        "explanation": prop.EXPLANATION,
    }
    core.write_evidence(pid, tier, seed, coverage, prop.ASSUMPTIONS, wall, violations)
    for l in out_lines:
        print(l)
    log("[%s] %s tier: %d obligations (%d ok), %d scripts, %d ops, %d distinct non-trivial, %d disagreements, %d spec failures, %.1fs"
        % (pid, tier, n_ob, n_ok, stats.scripts, stats.evaluations, len(stats.keys), len(stats.disagree), len(stats.spec_fail), wall))
    return 1 if violations else 0
