"""Generators for the suite `init` (real PeerCrypto objects), shared by C01, C05, C06 (and the transport part of C02)."""
import itertools
import struct
from .core import Script, hx

CIPH = {"aes128": 1, "aes256": 2, "chacha": 3}


def f32bits(x):
    return struct.unpack(">I", struct.pack(">f", x))[0]


def algos_str(plain, lst):
    parts = (["plain"] if plain else []) + ["%d:%08x" % (CIPH[c], f32bits(s)) for c, s in lst]
    return ",".join(parts) if parts else "-"


def party(name, key, trust, algos, nid):
    return "iparty %s key=%d trust=%s algos=%s id=%s" % (name, key, ",".join(map(str, trust)) if trust else "-", algos, nid)


DEFAULT_ALGOS = algos_str(False, [("aes128", 600.0), ("aes256", 500.0), ("chacha", 400.0)])


def setup(rng, trustA, trustB, algA=DEFAULT_ALGOS, algB=DEFAULT_ALGOS, keyA=0, keyB=1, nkeys=4):
    return ["ikeys %d %s" % (nkeys, rng.bytes(6).hex()),
            party("A", keyA, trustA, algA, rng.bytes(16).hex()),
            party("B", keyB, trustB, algB, rng.bytes(16).hex()),
            "iattempt a A payload=%s" % hx(rng.bytes(rng.range(1, 20))),
            "iattempt b B payload=%s" % hx(rng.bytes(rng.range(1, 20)))]


def mutations(rng, approx_len, full):
    """single-bit flips, truncations, byte substitutions in tag / length positions, extension"""
    muts = []
    nbits = 8 * approx_len
    if full:
        muts += ["flip=%d" % b for b in range(nbits)]
        muts += ["trunc=%d" % l for l in range(approx_len)]
    else:
        muts += ["flip=%d" % rng.below(nbits) for _ in range(60)]
        muts += ["flip=%d" % b for b in range(8, 8 + 96)]          # salt, key hash, first tags
        muts += ["trunc=%d" % rng.below(approx_len) for _ in range(25)] + ["trunc=1", "trunc=0", "trunc=9", "trunc=%d" % (approx_len - 1)]
    # field-level edits: stage value, tags, lengths (positions 9.. are TLV headers: 1+4+4 then tag,len,len,value)
    for pos, vals in ((9, (0, 2, 3, 4, 5, 9)), (10, (1,)), (11, (0, 2)), (12, (0, 2, 3, 4, 5, 255)), (13, (0, 1, 3)), (14, (1,)), (15, (0, 19, 21))):
        muts += ["set=%d:%d" % (pos, v) for v in vals]
    muts += ["app=00", "app=ff0102"]
    # the cipher ids of the advertised list (C06: altering the lists in transit makes the handshake fail): in a ping / pong the list part follows the stage,
    # node id hash and ECDH key parts, its entries (id, 4 bytes speed) start at byte 74
    for pos in (74, 79, 84):
        for v in (range(0, 12) if full else (0, 1, 2, 3, 4, 5, 9, 255)):
            muts.append("set=%d:%d" % (pos, v))
    muts += ["set=75:%d" % rng.below(256), "set=78:%d" % rng.below(256)]      # a speed
    # field edits of a genuine message: the length of each kind of part set to extreme and off-by-one values
    for tag in (1, 2, 3, 4, 5):
        for v in ("0000", "0001", "ffff", "fff8", "fff7", "8000", "0013", "0015", "001f", "0021"):
            if full or rng.chance(1, 3) or v in ("ffff", "fff8"):
                muts.append("tlvlen=%d:%s" % (tag, v))
    # degenerate signatures (all zero; S = 0 with R a point of small order), alone and under a key hash that names no trusted key
    ident = "01" + "00" * 31
    order2 = "ec" + "ff" * 30 + "7f"
    for sig in ("00" * 64, ident + "00" * 32, order2 + "00" * 32, "00" * 32 + "ff" * 32):
        muts.append("endhex=" + sig)
        for _ in range(3 if full else 2):
            muts.append("set=%d:%d set=%d:%d endhex=%s" % (5 + rng.below(4), rng.below(256), 1 + rng.below(4), rng.below(256), sig))
    return muts


def c01_script(rng, trustA, trustB, full, name, keyA=0, keyB=1):
    """genuine ping / pong / peng, each mutated in every way, presented to receivers in every stage"""
    ops = setup(rng, trustA, trustB, keyA=keyA, keyB=keyB)
    ops.append("iinit a")                                  # m0 = ping
    ops += ["itick a", "itick a", "itick a"]               # retransmissions: the retry counter of the attempt is not zero any more
    for m in mutations(rng, 150, full)[:12]:
        ops.append("ideliver m0 a %s" % m)                 # forged / mutated datagrams at the initiator itself (awaiting pong): nothing of its state may move
    for m in mutations(rng, 150, full):
        ops.append("ideliver m0 b %s" % m)                 # receiver fresh
    ops.append("ideliver m0 b trunc=%d tail=m0" % rng.range(20, 120))     # truncated datagram + stale tail of the buffer
    ops.append("ideliver m0 b trunc=1 tail=m0")
    ops.append("ideliver m0 b")                            # m1 = pong (if B trusts A)
    ops += ["itick b", "itick b"]                          # the responder has retransmitted: its retry counter is not zero
    for m in mutations(rng, 195, full):
        ops.append("ideliver-from b 0 a %s" % m)           # receiver awaiting pong
    for m in mutations(rng, 150, False):
        ops.append("ideliver m0 b %s" % m)                 # receiver awaiting peng
    ops.append("ideliver-from b 0 a")                      # m2 = peng (if A trusts B): a completed
    for m in mutations(rng, 135, full):
        ops.append("ideliver-from a 0 b %s" % m)           # mutated peng, receiver awaiting peng
    for m in mutations(rng, 195, False):
        ops.append("ideliver-from b 0 a %s" % m)           # mutated pong, receiver completed (waiting to close)
    ops.append("ideliver-from a 0 b")                      # b completes
    for m in mutations(rng, 150, False)[:40]:
        ops.append("ideliver m0 b %s" % m)                 # receiver closing / finished
    # random datagrams with the handshake marker
    for _ in range(60):
        n = rng.choice([1, 2, 5, 9, 10, 40, 150, 300])
        ops.append("iattempt x%d B payload=00" % 0) if False else None
        raw = bytes([0xff]) + rng.bytes(n - 1)
        ops.append("isend a 0 %s" % hx(raw)) if False else None
    return Script(name, [o for o in ops if o], {"suite": "init"})


def trust_graphs(thorough):
    keys = [0, 1, 2, 3]
    subs = []
    for r in range(0, 5):
        subs += [list(c) for c in itertools.combinations(keys, r)]
    if thorough:
        return [(a, b) for a in subs for b in subs]
    return [([0, 1], [0, 1]), ([1], [0]), ([0, 1], [1]), ([1], [1]), ([], []), ([2, 3], [0]), ([1], [0, 2, 3]), ([0], [0])]


def c05_schedules(rng, depth, dual_open_bias=True):
    alphabet = ["initA", "initB", "d-ab0", "d-ab1", "d-ba0", "d-ba1", "tickA", "tickB"]
    for seq in itertools.product(alphabet, repeat=depth):
        yield seq


def c05_script(rng, seq, name, reliable_tail=True):
    ops = setup(rng, [0, 1], [0, 1])
    for s in seq:
        if s == "initA":
            ops.append("iinit a")
        elif s == "initB":
            ops.append("iinit b")
        elif s == "tickA":
            ops.append("itick a")
        elif s == "tickB":
            ops.append("itick b")
        else:
            src, dst, k = s[2], s[3], int(s[4])
            ops.append("ideliver-from %s %d %s" % (src, k, dst))
    if reliable_tail and ("initA" in seq or "initB" in seq) and seq.count("tickA") + seq.count("tickB") < 40:
        # delivery becomes reliable: lock-step rounds of (tick = retransmission, deliver the newest datagram of each end to the other).  Whatever the
        # schedule did before (short of timeouts: fewer than 40 ticks), both ends must complete, with each other.
        for _ in range(8):
            ops += ["itick a", "ideliver-from a 0 b", "itick b", "ideliver-from b 0 a"]
        ops.append("iexpect both a b")
    # probes: whatever state was reached, sealed payload either arrives identical or is rejected
    ops += ["isend a 0 %s" % hx(rng.bytes(5)), "ideliver-from a 0 b", "isend b 0 %s" % hx(rng.bytes(7)), "ideliver-from b 0 a"]
    return Script(name, ops, {"suite": "init", "noshrink": True})


def c05_random(rng, steps, name):
    ops = setup(rng, [0, 1], [0, 1])
    for _ in range(steps):
        k = rng.below(100)
        if k < 8:
            ops.append("iinit " + rng.choice("ab"))
        elif k < 55:
            src = rng.choice("ab")
            dst = "b" if src == "a" else "a"
            if rng.chance(1, 15):
                dst = src                      # reflection
            mut = ""
            if rng.chance(1, 12):
                mut = " " + rng.choice(["flip=%d" % rng.below(1000), "trunc=%d" % rng.below(150), "app=00"])
            ops.append("ideliver-from %s %d %s%s" % (src, rng.choice([0, 0, 0, 1, 2, 3]), dst, mut))
        elif k < 85:
            ops.append("itick " + rng.choice("ab"))
        else:
            who = rng.choice("ab")
            ops.append("isend %s %d %s" % (who, rng.choice([0, 1, 2]), hx(rng.bytes(rng.below(30)))))
    ops += ["isend a 0 0102", "ideliver-from a 0 b", "isend b 0 0304", "ideliver-from b 0 a"]
    return Script(name, ops, {"suite": "init"})


def rotation_run(rng, name, seconds=500):
    """complete a handshake, then many seconds with rotation messages delivered / dropped at random and data probes"""
    ops = setup(rng, [0, 1], [0, 1])
    ops += ["iinit a", "ideliver-from a 0 b", "ideliver-from b 0 a", "ideliver-from a 0 b", "ideliver-from b 0 a"]
    for t in range(seconds):
        for s in "ab":
            o = "b" if s == "a" else "a"
            ops.append("itick " + s)
            if not rng.chance(1, 10):
                ops.append("ideliver-from %s 0 %s" % (s, o))
        if t % 7 == 0:
            ops += ["isend a 0 %s" % hx(rng.bytes(4)), "ideliver-from a 0 b", "isend b 0 %s" % hx(rng.bytes(4)), "ideliver-from b 0 a"]
    return Script(name, ops, {"suite": "init"})


def c06_tie_scripts(rng, thorough):
    """ties at the top between every pair of ciphers, under every ordering of both lists and both initiator assignments"""
    names = ["aes128", "aes256", "chacha"]
    n = 0
    # ties at the top between every pair of ciphers, under every ordering of both lists and both initiator assignments
    for c1, c2 in itertools.combinations(names, 2):
        third = [c for c in names if c not in (c1, c2)][0]
        for oa in itertools.permutations(names):
            for ob in itertools.permutations(names):
                if not thorough and not rng.chance(1, 3):
                    continue
                top = rng.choice([500.0, 100.0, 3.0e38])
                low = rng.choice([0.0, 1.0, 50.0])
                sp = {c1: top, c2: top, third: low}
                # the tie must be in the minimum of the two sides: one side may advertise more for one of them
                spb = dict(sp)
                if rng.chance(1, 2):
                    spb[rng.choice([c1, c2])] = 3.2e38
                for first in "ab":
                    other = "b" if first == "a" else "a"
                    ops = setup(rng, [0, 1], [0, 1], algos_str(False, [(c, sp[c]) for c in oa]), algos_str(False, [(c, spb[c]) for c in ob]))
                    ops += ["iinit " + first, "ideliver-from %s 0 %s" % (first, other), "ideliver-from %s 0 %s" % (other, first),
                            "ideliver-from %s 0 %s" % (first, other), "ideliver-from %s 0 %s" % (other, first),
                            "isend a 0 aa", "ideliver-from a 0 b"]
                    n += 1
                    yield Script("tie-%d" % n, ops, {"suite": "init"})


def c06_scripts(rng, thorough):
    """every pair of subsets of {plain, aes128, aes256, chacha} x orderings x speed grid with ties, zero, huge; both initiators"""
    names = ["aes128", "aes256", "chacha"]
    grid = [0.0, 1.0, 100.0, 100.0, 500.0, 500.0, 3.0e38, 1.0e-40]
    n = 0
    for s in c06_tie_scripts(rng, thorough):
        yield s
    subsets = []
    for r in range(0, 4):
        subsets += [list(c) for c in itertools.combinations(names, r)]
    for sa in subsets:
        for sb in subsets:
            for pa in (False, True):
                for pb in (False, True):
                    perms_a = list(itertools.permutations(sa))
                    perms_b = list(itertools.permutations(sb))
                    for oa in (perms_a if thorough else [rng.choice(perms_a)]):
                        for ob in (perms_b if thorough else [rng.choice(perms_b)]):
                            for _ in range(2 if thorough else 1):
                                la = [(c, rng.choice(grid)) for c in oa]
                                lb = [(c, rng.choice(grid)) for c in ob]
                                first = rng.choice("ab")
                                other = "b" if first == "a" else "a"
                                ops = setup(rng, [0, 1], [0, 1], algos_str(pa, la), algos_str(pb, lb))
                                ops += ["iinit " + first, "ideliver-from %s 0 %s" % (first, other), "ideliver-from %s 0 %s" % (other, first),
                                        "ideliver-from %s 0 %s" % (first, other), "ideliver-from %s 0 %s" % (other, first),
                                        "isend a 0 aa", "ideliver-from a 0 b"]
                                n += 1
                                yield Script("nego-%d" % n, ops, {"suite": "init"})


def cfg_script(rng, name):
    """parties built through the real configuration path (Crypto::new): explicit trusted keys, default trust (own key), shared key pairs"""
    ops = ["ikeys 4 %s" % rng.bytes(6).hex()]
    cases = [  # (keyA, trustA, keyB, trustB)
        (0, [1], 0, [0]),        # A trusts only key 1, B holds the same key pair as A: A must not accept B
        (0, [], 0, []),          # default trust: own key -> both share the key and trust each other
        (0, [], 1, []),          # default trust, different keys: no trust
        (0, [1], 1, [0]),        # mutual explicit trust
        (0, [0, 1], 1, [1]),     # one-sided
        (0, [1, 2], 1, [0, 2]),  # mutual trust through the FIRST entry of two-entry lists
        (0, [2, 1, 3], 1, [3, 0, 2]),  # … through a middle entry
    ]
    for i, (ka, ta, kb, tb) in enumerate(cases):
        a, b = "A%d" % i, "B%d" % i
        ops.append("iparty-cfg %s key=%d trust=%s id=%s" % (a, ka, ",".join(map(str, ta)) if ta else "-", rng.bytes(16).hex()))
        ops.append("iparty-cfg %s key=%d trust=%s id=%s" % (b, kb, ",".join(map(str, tb)) if tb else "-", rng.bytes(16).hex()))
        ops.append("iattempt a%d %s payload=%s" % (i, a, hx(rng.bytes(3))))
        ops.append("iattempt b%d %s payload=%s" % (i, b, hx(rng.bytes(4))))
        for first, other in (("a%d" % i, "b%d" % i),):
            ops += ["iinit " + first, "ideliver-from %s 0 %s" % (first, other), "ideliver-from %s 0 %s" % (other, first),
                    "ideliver-from %s 0 %s" % (first, other)]
        # and the other direction with fresh attempts
        ops.append("iattempt c%d %s payload=%s" % (i, a, hx(rng.bytes(3))))
        ops.append("iattempt d%d %s payload=%s" % (i, b, hx(rng.bytes(4))))
        ops += ["iinit d%d" % i, "ideliver-from d%d 0 c%d" % (i, i), "ideliver-from c%d 0 d%d" % (i, i), "ideliver-from d%d 0 c%d" % (i, i)]
        if i in (1, 3, 5, 6):
            # each trusts the other's key (explicitly, at whatever position of the list, or by default through the shared key): both directions have completed
            ops += ["iexpect both a%d b%d" % (i, i), "iexpect both c%d d%d" % (i, i)]
    return Script(name, ops, {"suite": "init"})


# ------------------------------------------------------------------------------------------------
# handshake datagrams with arbitrary TLV content, genuinely signed by a key holder (`isign`): what the decoder does behind the signature check
# (mandatory parts missing, unknown parts — "skipped so that newer peers stay compatible" —, repeated parts, other orders, odd field lengths)

def tlv(tag, body):
    return bytes([tag, len(body) >> 8, len(body) & 255]) + body


def algos_part(rng, plain=False, lst=((3, 400.0),)):
    b = b""
    if plain:
        b += bytes([0]) + bytes.fromhex("7f800000")
    for cid, sp in lst:
        b += bytes([cid]) + f32bits(sp).to_bytes(4, "big")
    return tlv(4, b)


def signed_parts_scripts(rng, thorough):
    n = 0
    plain_too = algos_str(True, [("aes128", 600.0), ("chacha", 400.0)])
    for trustB, signer, algB in (([0, 1], 0, DEFAULT_ALGOS), ([1], 0, DEFAULT_ALGOS), ([0, 1], 2, DEFAULT_ALGOS), ([0, 1], 0, plain_too), ([0, 1], 0, algos_str(True, []))):
        ops = ["ikeys 4 %s" % rng.bytes(6).hex(),
               party("A", 0, [0, 1], DEFAULT_ALGOS, rng.bytes(16).hex()),
               party("B", 1, trustB, algB, rng.bytes(16).hex()),
               "iattempt a A payload=%s" % hx(rng.bytes(5))]
        stage = lambda v: tlv(1, bytes([v]))
        nid = lambda: tlv(2, rng.bytes(20))
        ecdh = lambda k=32: tlv(3, rng.bytes(k))
        algs = lambda: algos_part(rng, rng.chance(1, 3), [(rng.choice([1, 2, 3]), 100.0 + rng.below(900)) for _ in range(rng.range(1, 3))])
        unk = lambda: tlv(rng.choice([6, 7, 9, 0x40, 0xfe]), rng.bytes(rng.choice([0, 1, 5, 40])))
        pay = lambda: tlv(5, rng.bytes(rng.choice([0, 8, 24, 40])))
        variants = []
        base = [stage(1), nid(), ecdh(), algs()]
        variants.append(("ping", base))
        for i in range(len(base) + 1):                                    # an unknown part at every part boundary
            variants.append(("ping+unknown@%d" % i, base[:i] + [unk()] + base[i:]))
        variants.append(("ping+2unknown", [unk()] + base[:2] + [unk(), unk()] + base[2:]))
        for i in range(len(base)):                                        # each mandatory part missing
            variants.append(("ping-part%d" % i, base[:i] + base[i + 1:]))
        perm = list(base)
        rng.shuffle(perm)
        variants.append(("ping-permuted", perm))
        variants.append(("ping-stage-twice", [stage(3)] + base))          # the later part wins
        variants.append(("ping-ecdh-twice", base + [ecdh()]))
        for v in (0, 2, 3, 4, 5, 255):                                     # other stage values
            variants.append(("stage=%d" % v, [stage(v), nid(), ecdh(), algs()] + ([pay()] if v in (2, 3) else [])))
        variants.append(("pong-without-payload", [stage(2), nid(), ecdh(), algs()]))
        variants.append(("pong-without-ecdh", [stage(2), nid(), algs(), pay()]))
        variants.append(("pong-without-algos", [stage(2), nid(), ecdh(), pay()]))
        variants.append(("pong-without-nodeid", [stage(2), ecdh(), algs(), pay()]))
        variants.append(("peng-without-payload", [stage(3), nid()]))
        variants.append(("peng", [stage(3), nid(), pay()]))
        variants.append(("stage-len-2", [tlv(1, b"\x01\x00"), nid(), ecdh(), algs()]))
        variants.append(("nodeid-len-19", [stage(1), tlv(2, rng.bytes(19)), ecdh(), algs()]))
        variants.append(("algos-len-7", [stage(1), nid(), ecdh(), tlv(4, rng.bytes(7))]))
        variants.append(("algos-unknown-cipher", [stage(1), nid(), ecdh(), tlv(4, bytes([9]) + bytes(4) + bytes([3]) + f32bits(5.0).to_bytes(4, "big"))]))
        variants.append(("algos-empty", [stage(1), nid(), ecdh(), tlv(4, b"")]))
        # cipher ids of a newer peer (outside 1..3) are not ciphers of this node and are not the plain marker either: the receiver answers with what is common
        # to the KNOWN entries (sealed payload unless both enabled plain), or fails cleanly when nothing is common
        sp4 = lambda: f32bits(100.0 + rng.below(900)).to_bytes(4, "big")
        for unkid in (4, 9, 0x80, 0xff):
            variants.append(("algos-unknown%d-first" % unkid, [stage(1), nid(), ecdh(), tlv(4, bytes([unkid]) + sp4() + bytes([3]) + sp4())]))
            variants.append(("algos-unknown%d-last" % unkid, [stage(1), nid(), ecdh(), tlv(4, bytes([1]) + sp4() + bytes([unkid]) + sp4())]))
            variants.append(("algos-unknown%d-only" % unkid, [stage(1), nid(), ecdh(), tlv(4, bytes([unkid]) + sp4())]))
        variants.append(("algos-unknown-and-plain", [stage(1), nid(), ecdh(), tlv(4, bytes([0]) + bytes.fromhex("7f800000") + bytes([7]) + sp4())]))
        variants.append(("algos-plain-only", [stage(1), nid(), ecdh(), tlv(4, bytes([0]) + bytes.fromhex("7f800000"))]))
        variants.append(("empty", []))
        variants.append(("payload-in-ping", base + [pay()]))
        k = 0
        for name, parts in variants:
            body = b"".join(parts) + b"\x00"
            ops.append("isign %d %s %s" % (signer, rng.bytes(4).hex(), hx(body)))
            # each to a fresh responder object, and to an object in a later stage
            k += 1
            ops.append("iattempt r%d B payload=%s" % (k, hx(rng.bytes(3))))
            ops.append("ideliver-from signer%d 0 r%d" % (signer, k))
            ops.append("ideliver-from signer%d 0 r%d" % (signer, k))      # the same again (stage has moved if it was accepted)
            if rng.chance(1, 3):
                ops.append("ideliver-from signer%d 0 r%d %s" % (signer, k, rng.choice(["flip=%d" % rng.below(400), "trunc=%d" % rng.below(60), "app=00"])))
        # no end marker at all / end marker in the middle
        ops.append("isign %d %s %s" % (signer, rng.bytes(4).hex(), hx(b"".join(base))))
        ops.append("iattempt rz B payload=00")
        ops.append("ideliver-from signer%d 0 rz" % signer)
        n += 1
        yield Script("signed-parts-%d" % n, ops, {"suite": "init"})


def cfg_algos_script(rng, name, thorough):
    """cipher lists as a user writes them (order, aliases, upper / lower case, 'plain' anywhere in the list, nothing configured), through the
    real configuration path `Crypto::new`; what is advertised must be exactly the configured set, and handshakes between such parties must
    select as the reference does (speeds are measured by the implementation and observed)"""
    lists = ["plain", "aes128,plain,aes256", "PLAIN,chacha20", "aes256", "default", "AES_128_GCM,none", "chacha,aes_256,unencrypted,AES128",
             "aes256,aes128", "bogus", "aes128,rot13", "plain,plain", "chacha20_poly1305", "aes128,aes128"]
    if thorough:
        names = ["aes128", "aes256", "chacha20", "plain"]
        for _ in range(12):
            l = [rng.choice(names) for _ in range(rng.range(1, 4))]
            lists.append(",".join(l))
    ops = ["ikeys 2 %s" % rng.bytes(6).hex()]
    good = []
    for i, l in enumerate(lists):
        ops.append("iparty-cfg P%d key=%d trust=0,1 id=%s algos=%s" % (i, i % 2, rng.bytes(16).hex(), l))
        if "bogus" not in l and "rot13" not in l:
            good.append(i)
    # handshakes between pairs of them, both directions
    pairs = [(a, b) for a in good for b in good if a < b]
    rng.shuffle(pairs)
    for k, (a, b) in enumerate(pairs[: (40 if thorough else 14)]):
        x, y = ("P%d" % a, "P%d" % b) if rng.chance(1, 2) else ("P%d" % b, "P%d" % a)
        ops.append("iattempt x%d %s payload=%s" % (k, x, hx(rng.bytes(3))))
        ops.append("iattempt y%d %s payload=%s" % (k, y, hx(rng.bytes(4))))
        ops += ["iinit x%d" % k, "ideliver-from x%d 0 y%d" % (k, k), "ideliver-from y%d 0 x%d" % (k, k), "ideliver-from x%d 0 y%d" % (k, k)]
    return Script(name, ops, {"suite": "init"})


def equal_salt_script(rng, name):
    """two different nodes whose handshake objects drew the SAME 4-byte salt (a 2^-32 event, prescribed here): the nonce halves are decided by the whole
    salted node-id hashes, so the two ends still get opposite halves and the handshake completes in both role assignments"""
    ops = ["ikeys 2 %s" % rng.bytes(6).hex(),
           party("A", 0, [0, 1], DEFAULT_ALGOS, rng.bytes(16).hex()), party("B", 1, [0, 1], DEFAULT_ALGOS, rng.bytes(16).hex())]
    for k in range(6):
        salt = rng.bytes(4).hex()
        a, b = "a%d" % k, "b%d" % k
        ops += ["iattempt %s A payload=%s salt=%s" % (a, hx(rng.bytes(3)), salt), "iattempt %s B payload=%s salt=%s" % (b, hx(rng.bytes(4)), salt)]
        first, other = (a, b) if k % 2 == 0 else (b, a)
        ops += ["iinit " + first, "ideliver-from %s 0 %s" % (first, other), "ideliver-from %s 0 %s" % (other, first), "ideliver-from %s 0 %s" % (first, other),
                "ideliver-from %s 0 %s" % (other, first), "isend %s 0 aa" % a, "ideliver-from %s 0 %s" % (a, b), "isend %s 0 bb" % b, "ideliver-from %s 0 %s" % (b, a),
                "iexpect both %s %s" % (a, b)]
    # simultaneous open with equal salts: the whole salted hash breaks the tie, exactly one end gives way and both complete once
    for k in range(6, 12):
        salt = rng.bytes(4).hex()
        a, b = "a%d" % k, "b%d" % k
        ops += ["iattempt %s A payload=%s salt=%s" % (a, hx(rng.bytes(3)), salt), "iattempt %s B payload=%s salt=%s" % (b, hx(rng.bytes(4)), salt)]
        ops += ["iinit " + a, "iinit " + b] + (["ideliver-from %s last %s" % (a, b), "ideliver-from %s last %s" % (b, a)] if k % 2 == 0 else
                                               ["ideliver-from %s last %s" % (b, a), "ideliver-from %s last %s" % (a, b)])
        ops += ["ideliver-from %s last %s" % (b, a), "ideliver-from %s last %s" % (a, b), "ideliver-from %s last %s" % (b, a), "ideliver-from %s last %s" % (a, b),
                "isend %s 0 aa" % a, "ideliver-from %s 0 %s" % (a, b), "isend %s 0 bb" % b, "ideliver-from %s 0 %s" % (b, a), "iexpect both %s %s" % (a, b)]
    return Script(name, ops, {"suite": "init", "noshrink": True})
