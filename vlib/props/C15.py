"""C15 (node level)."""
from ..core import Script
from .. import nodegen
from ._nodecommon import *

ID = "C15"
LEAN_MODULES = ["VpnCloud.Proofs.C15", "VpnCloud.Proofs.C15Node", "VpnCloud.Proofs.C15More", "VpnCloud.Proofs.GuardsUsed", "VpnCloud.Proofs.C15Join"]
THEOREMS = ["VpnCloud.Proofs.C15." + n for n in ("interval_safe", "keepalive_default_safe", "backoff_bounded")] + [
            "VpnCloud.Proofs.C15Node.housekeep_removes_expired", "VpnCloud.Proofs.C15Node.expired_peer_removed"] + [
            "VpnCloud.Proofs.C15More." + n for n in ("housekeep_schedules_safe", "housekeep_delay_safe_for_peer", "housekeep_keeps_schedule", "housekeep_interval_no_panic",
                "announced_info", "announce_reaches_every_peer", "announced_timeout_decodes", "peers_after_message", "refresh_sets_expiry", "message_keeps_other_peers",
                "data_does_not_refresh", "healthy_never_expires", "tinv_after_announcement", "publish_le_own", "timeout_zero_expires", "advertised_above_own_expires",
                "second_disjunct_needed", "tinv_after_join", "joined_peer_never_expires", "join_announces_next_tick", "handshake_pulls_schedule", "handshake_schedule", "datagram_never_delays_schedule", "plain_datagram_keeps_schedule", "new_peer_announced_next_tick", "new_peer_delay_safe", "silent_removed", "silent_removed_node", "expired_peer_redialled", "handshake_sets_expiry",
                "reconnect_forever", "housekeep_reconnect_forever", "reconnect_dials", "housekeep_dials")]
THEOREMS = THEOREMS + ["VpnCloud.Proofs.GuardsUsed." + n for n in ('peerExpired_boundary', 'announceDue_boundary', 'ownResetDue_boundary', 'reconnect_at', 'reconnect_silent', 'reconnectNotDue_boundary', 'backoffDoubles_boundary', 'backoffCapped_boundary')]
RULE = ("suite node: announcement interval through a real node's housekeeping for own settings (peer timeout, keepalive) from a grid incl. 0, 1, 59, 60, 119, 120, 121, 300, 65535 x advertised "
        "timeouts (all 65536 in thorough, boundary values and a sample in quick); heterogeneous meshes run for 3 x the largest timeout; silence injection (all datagrams of one node dropped from time t); "
        "back-off of a configured unreachable peer over 48 h (thorough) / 3 h (quick) of simulated time; distinct non-trivial = distinct (op, #datagrams out, #interface writes, #peers, #pending, mutation kind)")
EXPLANATION = "interval_safe (re-proved each run on the expression regenerated from the source), silent_removed_next_tick, backoff_bounded; reference monitor on every housekeeping step"
LEVEL_TEXT = EXPLANATION
LEVEL_NOTE = "'never timed out' is checked in simulated meshes with same-tick delivery; jitter of the real one-second trigger is not modelled"
TECHNIQUE = "Lean 4 proof over the regenerated interval expression + differential correspondence + reference monitor"
DESIGN_REF = "DESIGN.md section 5, C15"


def gen(tier, rng):
    thorough = tier == "thorough"
    own = [(0, "-"), (1, "-"), (59, "-"), (60, "-"), (119, "-"), (120, "-"), (121, "-"), (300, "-"), (65535, "-"), (300, "0"), (300, "1"), (300, "1000"), (100, "65536"), (70000, "-")]
    adv = list(range(65536)) if thorough else sorted(set([0, 1, 2, 59, 60, 100, 119, 120, 121, 122, 123, 124, 125, 126, 239, 240, 241, 300, 600, 65534, 65535] + [rng.below(65536) for _ in range(60)]))
    full = {(0, "-"), (119, "-"), (300, "-"), (65535, "-"), (300, "1000")}
    for i, o in enumerate(own):
        a = adv if (not thorough or o in full) else sorted(set(adv[::37] + adv[:300] + adv[-300:]))
        for j in range(0, len(a), 2048):
            yield nodegen.c15_interval_script(rng, "interval-%d-%d" % (i, j), [o], a[j:j + 2048])
    yield nodegen.c15_timeout_script(rng, "hetero", [60, 300, 130], None, 3 * 300 if thorough else 400)
    yield nodegen.c15_timeout_script(rng, "hetero-ka", [120, 600, 100], None, 700, ka="200")
    for t0 in ([5, 50, 61, 100, 131] if thorough else [20]):
        yield nodegen.c15_timeout_script(rng, "silence-%d" % t0, [60, 90, 300], t0, t0 + 420)
    yield nodegen.c15_timeout_script(rng, "silence-shared-private-address", [60, 90, 300], 40, 40 + 300, shared_adv="4:c0a80001:3210")
    yield nodegen.backoff_script(rng, "backoff", 48 if thorough else 20)
    vals = [0, 1, 100, 119, 121, 200, 300, 3600, 65535]
    combos = [(3600, 200), (200, 3600), (3600, 200, 3600), (300, 121, 65535), (65535, 1), (1, 65535)]
    combos += [tuple(rng.choice(vals) for _ in range(rng.choice([2, 3, 4]))) for _ in range(200 if thorough else 30)]
    yield nodegen.c15_multi_interval_script(rng, "interval-multi", combos)
    yield nodegen.c15_multi_interval_script(rng, "interval-multi-ka", combos[:20], own=(300, "1000"))
    yield nodegen.c15_learned_timeout_script(rng, "learned-timeout")
    yield nodegen.keepalive_only_script(rng, "keepalive-only")
    # a peer restarts on the same address advertising a much shorter timeout: the announcement interval must follow at once
    yield nodegen.reconfig_restart_script(rng, "restart-shorter-timeout", (nodegen.CHACHA, nodegen.CHACHA), (None, nodegen.CHACHA), pt_after=125)
    # unencrypted meshes announce like all others: nobody is timed out over several peer timeouts
    yield nodegen.plain_long_script(rng, "plain-long", 25, 80)
    yield nodegen.announce_script(rng, "announce", 100 if thorough else 40)          # keepalives / node information refresh the expiry; advertised timeouts vary
THEOREMS = THEOREMS + ["VpnCloud.Proofs.C15Join." + n for n in ("joined_peer_survives_tick", "joined_peer_gone_after_expiry", "joined_peer_gets_first_announcement", "sessionTickOk_of_waiting")]
