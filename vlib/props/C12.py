"""C12 - Routes track peers: exactly the announced claims, nothing for the disconnected (table level; node level in the node suite)."""
from ..core import Script
from .. import tablegen
from . import C11 as _c11

from . import _nodecommon
from .. import nodegen

ID = "C12"
SUITES = ["table", "node"]
LEAN_MODULES = ["VpnCloud.Proofs.C12", "VpnCloud.Proofs.C12Node", "VpnCloud.Proofs.TableRefine", "VpnCloud.Proofs.GuardsUsed", "VpnCloud.Proofs.C12More"]
THEOREMS = ["VpnCloud.Proofs.C12." + n for n in ("setClaims_exact", "removeClaims_clears", "housekeep_spec", "lookup_result_mem", "removed_peer_unreachable", "claims_expire", "housekeep_compose", "housekeep_idem", "housekeep_keeps_live", "housekeep_fixed")] + [
            "VpnCloud.Proofs.C12Node.tablePeers_handleNet", "VpnCloud.Proofs.C12Node.tablePeers_handleIface", "VpnCloud.Proofs.C12Node.tablePeers_housekeep", "VpnCloud.Proofs.C12Node.tablePeers_connect", "VpnCloud.Proofs.C12Node.next_hop_is_peer", "VpnCloud.Proofs.C12Node.iface_finds_peer", "VpnCloud.Proofs.C12Node.table_points_to_peers", "VpnCloud.Proofs.C12Node.table_points_to_peers'"]
THEOREMS = THEOREMS + ["VpnCloud.Proofs.TableRefine." + n for n in ('table_refines', 'claims_are_last_announcement', 'disconnected_peer_unreachable', 'history_split', 'duplicate_announce_flushes', 'refinement_fails_at_zero')]
THEOREMS = THEOREMS + ["VpnCloud.Proofs.GuardsUsed." + n for n in ('claimLive_boundary',)]
THEOREMS = THEOREMS + ["VpnCloud.Proofs.C12More." + n for n in ('timeout_removes_routes', 'close_removes_routes', 'failed_session_removes_routes', 'superseding_handshake_replaces_claims', 'peers_only_leave_by', 'announcement_sets_claims', 'keepalive_keeps_claims', 'claims_expire_node', 'lookup_hit_is_sent_or_unsealable')]
BATCH = 200
SEARCH_BUDGET_S = 300
RULE = ("suite table: announcement sequences of one peer over all subsets and orders of a 4-claim universe (grow, shrink, permute, "
        "duplicates) next to a second peer with overlapping claims, lookups in between (cached decisions); random operation sequences "
        "with disconnects, time steps and sweeps; every step is checked with the one-step relations announceOk / disconnectOk / "
        "sweepOk on the implementation's own before/after dumps; distinct non-trivial as in C11")
EXPECTED_CLASSES = ["lookup:peer", "lookup:none", "announce:ok", "disconnect:ok", "sweep:ok"]
TRUSTED_BASE = _c11.TRUSTED_BASE
ASSUMPTIONS = _c11.ASSUMPTIONS
EXPLANATION = ("setClaims_exact / removeClaims_clears: for every table, peer, announcement and time > 0 the model of "
               "ClaimTable::set_claims / remove_claims satisfies announceOk / disconnectOk (claims of the peer = announced set, all "
               "fresh, other peers untouched, cached decisions of dropped claims gone; nothing points to a removed peer).")
LEVEL_TEXT = EXPLANATION
LEVEL_NOTE = _c11.LEVEL_NOTE
TECHNIQUE = "Lean 4 proof (induction over the claim list of set_claims) + differential correspondence + one-step Spec relations on impl dumps"
DESIGN_REF = "DESIGN.md section 5, C12"

obs_class = _c11.obs_class
nontrivial_key = _c11.nontrivial_key


def classify(script, result):
    return None


def _gen_base(tier, rng):
    for s in tablegen.claim_sequences(rng.fork("claims"), tier):
        yield s
    for s in tablegen.table_scripts(tier, rng.fork("table")):
        yield s


def gen(tier, rng):
    for x in _gen_base(tier, rng):
        yield x
    thorough = tier == "thorough"
    # node level: peers go silent, restart on the same address, claims follow the last announcement; next hops are always peers
    r = rng.fork("node")
    yield nodegen.switch_timeout_script(r, "node-switch-timeout")
    yield nodegen.restart_script(r, "node-restart", 2)
    yield nodegen.c15_timeout_script(r, "node-silence", [60, 90, 300], 20, 200)
    # removal by a close message; announcements with arbitrary content from an established peer (claims grow / shrink / permute / repeat)
    yield nodegen.close_script(r, "node-close-router")
    yield nodegen.close_script(r, "node-close-switch", mode="switch", dev="tap")
    for i in range(6 if thorough else 2):
        yield nodegen.announce_script(r, "node-announce-%d" % i, 120 if thorough else 50)
    yield nodegen.close_during_attempt_script(r, "node-close-during-attempt")       # removed by close message while an attempt from the same address is pending

obs_class, nontrivial_key = _nodecommon.with_node(obs_class, nontrivial_key)
