"""C02 (crypto core level)."""
from ..core import Script
from .. import coregen

from . import _nodecommon
from .. import nodegen

ID = "C02"
SUITES = ["core", "node", "init"]
LEAN_MODULES = ["VpnCloud.Proofs.C02", "VpnCloud.Proofs.C02Node", "VpnCloud.Proofs.C02More", "VpnCloud.Proofs.GuardsUsed", "VpnCloud.Proofs.C10Net"]
THEOREMS = ["VpnCloud.Proofs.C02." + n for n in ("roundtrip", "accepted_is_genuine", "reject_no_state", "garbage_rejected", "reflection_rejected", "cross_connection_rejected")] + [
            "VpnCloud.Proofs.C02Node.wire_is_sealed", "VpnCloud.Proofs.C02Node.pending_session_carries_nothing", "VpnCloud.Proofs.C02Node.pending_session_cannot_send"]
THEOREMS = THEOREMS + ["VpnCloud.Proofs.C02More." + n for n in ('node_wire_is_sealed', 'wire_sealed_if_session_encrypted', 'iface_wire_is_sealed', 'cleartext_not_on_wire', 'cleartext_not_on_wire_all', 'plain_only_if_both', 'no_plain_all_sealed', 'node_wire_is_sealed_reach', 'no_plain_all_sealed_cur', 'session_plain_needs_peer_flag', 'responder_plain_needs_ping_flag', 'plain_peer_only_by_plain_handshake', 'wire_sealed_if_session_encrypted_net', 'tampered_dropped_node', 'altered_ciphertext_dropped', 'truncated_dropped', 'bad_key_id_dropped', 'altered_counter_dropped', 'cross_connection_dropped', 'reflected_dropped')]
THEOREMS = THEOREMS + ["VpnCloud.Proofs.GuardsUsed." + n for n in ('datagramTooShort_boundary', 'keyIdInvalid_boundary')]
THEOREMS = THEOREMS + ["VpnCloud.Proofs.C10Net." + n for n in ('frames_delivered_exactly_once', 'frames_delivered_same_mode', 'misdelivered_never_reaches_iface')]
BATCH = 100
SEARCH_BUDGET_S = 300
EXPECTED_CLASSES = ["seal:d", "deliver:ok", "deliver:err", "tick:ok"]
TRUSTED_BASE = ["AEAD (ring) idealised: open succeeds iff key, nonce, ciphertext and tag are exactly those of a seal (tested on every mutated datagram by the correspondence)",
                "random start values of send counters are inputs of the model (observed through a read-only hook)"]
ASSUMPTIONS = ["AEAD idealisation I2 (authenticity) and L1 (open . seal = id); fewer than 2^95 - 2^48 seals per key"]


def obs_class(op, obs):
    k = op.split(" ", 1)[0]
    if k == "seal":
        return "seal:" + obs[:1]
    if k == "deliver":
        return "deliver:" + obs.split(":", 1)[0]
    return k + ":" + ("ok" if obs not in ("panic", "bad-op") else obs)


def nontrivial_key(op, obs):
    t = op.split(" ")
    if t[0] == "deliver":
        mut = t[3].split("=")[0] if len(t) > 3 else "none"
        return ("deliver", mut, obs.split(":", 1)[0], len(obs) // 32)
    if t[0] == "seal":
        return ("seal", len(t[2]) // 2 if t[2] != "-" else 0)
    if t[0] == "inc":
        return ("inc", t[1].count("ff"), obs.count("00"))
    return None


def classify(script, result):
    return None


def _gen_base(tier, rng):
    return coregen.core_scripts(tier, rng, ID)
RULE = ("suite core: real CryptoCore pairs for the three ciphers; payload lengths 0..300 (all in thorough, every 7th in quick) and sampled up to 9000 with "
        "varying buffer offsets; for sealed datagrams every bit position and every truncation length, extension, reflection to the sender, "
        "key-id bytes naming other slots; random histories with rotations; the reference monitor demands rejection of every altered datagram "
        "and byte-identical plaintext for accepted ones; distinct non-trivial = distinct (mutation kind, outcome, length class)")
EXPLANATION = "core-level C02: roundtrip, accepted_is_genuine, reflection/cross-slot rejection on the symbolic AEAD model; correspondence with ring on every mutation"
LEVEL_TEXT = EXPLANATION
LEVEL_NOTE = "AEAD idealised (I2/L1); node-level sealing of payload and node information is covered by the node suite"
TECHNIQUE = "Lean 4 proof over an ideal-AEAD model of CryptoCore + differential correspondence with ring-backed code + reference monitor"
DESIGN_REF = "DESIGN.md section 5, C02"


def gen(tier, rng):
    for x in _gen_base(tier, rng):
        yield x
    thorough = tier == "thorough"
    # node level: payload and routing information travel sealed and arrive byte-identical; nothing unsealed is accepted from a pending handshake
    r = rng.fork("node")
    yield nodegen.basic_script(r, "node-basic", 3, 6)
    yield nodegen.c08_script(r, "node-states", False)
    for i in range(8 if thorough else 2):
        yield nodegen.attack_script(r, "node-attack-%d" % i, 3, 8)
    # "unless both ends explicitly enabled plain": meshes in which all / some nodes enabled it (a session is unencrypted only where both did)
    yield nodegen.forge_script(r, "node-forged-seals", r.choice([1, 2, 3]))
    yield nodegen.plain_script(r, "node-plain-all", [True, True, True])
    # a peer that ran 'plain' restarts WITHOUT it: from then on everything towards it must be sealed (and the other way round)
    plain, sealed = nodegen.algos_str(True, [("chacha", 400.0)]), nodegen.algos_str(False, [("chacha", 400.0)])
    yield nodegen.reconfig_restart_script(r, "node-restart-plain-to-sealed", (plain, nodegen.algos_str(True, [])), (None, sealed))
    yield nodegen.reconfig_restart_script(r, "node-restart-sealed-to-plain", (plain, sealed), (None, nodegen.algos_str(True, [])))
    yield nodegen.plain_script(r, "node-plain-mixed", [True, False, "only"])
    # "unless both ends explicitly enabled": what the peer enabled is what its signed handshake message lists — cipher ids of a newer peer are no plain marker
    from .. import initgen
    for sc in initgen.signed_parts_scripts(rng.fork("signed"), thorough):
        yield sc
    # "delivered byte-identical" over a long session: rotation messages are lost, the retransmitted ones must lead both ends to the same keys
    yield nodegen.long_session_script(r, "node-rotation-loss", 740, drop_at=(120, 121), replay_age=(2,), expect_from=360)
    if thorough:
        yield nodegen.plain_script(r, "node-plain-switch", [True, "only", True, False], mode="switch", dev="tap", seconds=12)

obs_class, nontrivial_key = _nodecommon.with_node(obs_class, nontrivial_key)
