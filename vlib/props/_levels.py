"""What each check claims (MANIFEST level_claimed.text / level_note), kept in one place and in step with the theorems registered in the property modules.
`tools/gen_manifest.py` prefers these texts over the LEVEL_TEXT / LEVEL_NOTE of the modules."""

COMMON_NOTE = (" Trusted base: Lean 4 kernel (axioms propext, Classical.choice, Quot.sound only; audited per theorem on every run); fidelity of the hand-written model as far as "
               "the correspondence run establishes it; the translator for Generated/* (constants, interval expressions, configuration rules, comparison guards); ring, std, serde_yaml, structopt "
               "are modelled, not verified.")

LEVELS = {
    "C01": ("Proof. Byte-level handshake model with ideal signatures: readFrom_accept_genuine / accepted_was_signed_by_trusted (an accepted window begins with a message signed by a trusted key), "
            "handleInit_reject_pure, node_reject_pure (rejected => no reply, no state); node level for all histories: peer_added_only_after_success, new_peer_trusted_in_history, "
            "routes_only_from_peers; two-party system for ALL schedules: completion_needs_mutual_trust, no_reply_without_trust, one_sided_trust_is_silent, and mutual_trust_iff "
            "(completes on the loss-free run iff each trusts the other's key, under NoCollision of the 4-byte salted key hash).",
            "Cryptographic content is hypothesis I1 (ideal signatures), exercised on every run against ring incl. degenerate signatures; salted-hash collisions among trusted keys are a named hypothesis."),
    "C02": ("Proof. Core: roundtrip, accepted_is_genuine (an accepted datagram is bit-identical to a logged seal), reflection / cross-connection / garbage rejected; node level for all histories: "
            "node_wire_is_sealed_reach (every non-handshake datagram to an encrypted peer is header ++ ideal seal), cleartext_not_on_wire (non-interference of frame content), plain_only_if_both, "
            "tampered_dropped_node with six instances; end to end frames_delivered_exactly_once (byte-identical).",
            "Confidentiality of the cipher itself is the AEAD's (idealised: I2, L1); an empty datagram after a handshake stage mismatch is excluded by bytes != [] (observation in DESIGN.md)."),
    "C03": ("Proof. window_refines (accept iff counter >= threshold of the history, by induction over histories), dies_in_two_ticks, newest_always_accepted, any_order_inside_window; whole sessions "
            "with rotation: session_window_refines, per_slot_independent, rotate_resets_slot, dies_in_two_ticks_session; the comparison itself is regenerated from the source (nonceTooOld, seenAdvances).",
            "Authenticity of datagrams is C02's assumption (I2)."),
    "C04": ("Proof. increment_val (12-byte carry chain = +1 mod 2^96), send_strictly_increasing, seal_log_nodup, halves_disjoint, beyond_56_bits_rejected, rotate_fresh; whole sessions: "
            "session_seal_log_nodup (fresh rotated-in keys necessary, witness), session_halves_disjoint, counter_never_wraps.",
            "Start values are arbitrary in the model ('unpredictable' is a property of the OS RNG, not provable); bounds: fewer than 2^95 - 2^48 seals per key."),
    "C05": ("Proof. Two-party system with an adversarial network (any bytes, any order, any number of times): attempt_agreement (both completed => partners, same cipher and key material, opposite "
            "halves and roles, each other's payload), success_at_most_once, role_switch_exclusive; key binding initiator_success_binds / responder_success_binds; lockstep_completes; "
            "recovery: reachable_classes, reliable_rounds_complete (two reliable rounds complete the pair from every reachable state but one dead end, which is a theorem too), give_up_is_bounded.",
            "Partial: the node-level time bound across re-dials (peer timeout + retry horizon) is decided by the healing / stale-responder / late-duplicate scenarios and the monitor. Ideal signatures / AEAD as named hypotheses."),
    "C06": ("Proof. select_spec / select_symm / selectRef_perm / plain_iff_both / fail_iff_none_common over the advertised lists; from the configuration: parse_plain_iff, parse_perm, "
            "plain_position_irrelevant, outcome_depends_on_sets_only (order, multiplicity, spelling, initiator irrelevant), tampered_list_fails (the list lies in the signed region).",
            "A cipher configured twice is measured twice and can break symmetry (witness; the property quantifies over sets). Names are modelled in ASCII (Rust's to_uppercase is Unicode-aware)."),
    "C07": ("Proof. rotation_sync for the symbolic two-party rotation system under every loss / duplication / reordering / timing (invariant Ahead), ids_interlock, receive_before_send, "
            "lockstep_fresh; session layer refines it: op_refines, session_rotation_sync, fresh_payload_opens, rotation_period, lost_message_only_delays.",
            "ECDH commutativity (L2) is built into the symbolic keys; a key holder's malformed rotation message is outside the property (derive_key panic site modelled: keyholder_can_panic, honest_sessions_never_panic)."),
    "C08": ("Proof. Every Rust panic site on the receive path is an explicit outcome of the model: never_panics for all reachable states and all datagrams (hypotheses NonEmptySeals and ValidRotKeys on what key HOLDERS seal; "
            "outsider_cannot_panic_node / panic_needs_session_seal: without a session key neither site is reachable; own_rotation_seals_valid: nodes running this code never seal such a message), node_reject_pure, unknown_sender_ignored, sequence_no_state_reach (any sequence of rejected datagrams: no panic, no output, state equal up to the counter).",
            "Panics inside ring / std are outside the model; hangs are observed by the stall watchdog of the correspondence run, not provable (Lean functions terminate by construction)."),
    "C09": ("Proof. other_source_keeps_session (no hypothesis on the bytes), rejected_keeps_session, forged_data_keeps_peer, replayed_handshake_keeps_session (the repaired F-C09 for all byte strings), "
            "pending_handles_handshake, pending_expiry_keeps_peer (for every pending list), dispatch_reaches_session.",
            "One-step theorems composed by the monitor over attack histories; the in-window duplicate is C03's."),
    "C10": ("Proof. net_never_relays, iface_write_only_from_peer_data, at_most_one_iface_write, housekeep_never_sends_data, emit_known / emit_unknown_broadcast / broadcast_reaches_all, "
            "one_hop_exactly_once; histories: stream_delivered_exactly_once, frames_delivered_exactly_once, no_other_node, duplicate_rejected_after_two_ticks.",
            "Node-level histories with housekeeping or rotation between frames are covered by the session-level theorems plus the suite."),
    "C11": ("Proof. matches_iff_prefix (all lengths and prefixes, no u8 overflow), lookup_spec / lookup_most_specific, cache_lifetime; table_refines (abstract routing state for all histories) with "
            "lookup_longest_live_prefix, cache_bounded; node: router_drop_counts, flood_not_counted.",
            "'Live' = survived the last sweep (lookup never reads the clock; sweeps run every second): expired_claim_still_routes is a theorem, recorded as an observation."),
    "C12": ("Proof. setClaims_exact, removeClaims_clears, claims_expire; table_points_to_peers for all reachable states; claims_are_last_announcement (all histories); every removal path takes the "
            "routes along: timeout / close / failed session / superseding handshake, peers_only_leave_by; announcement_sets_claims.",
            "Time 0 is excluded (the table uses timeout 0 as deletion mark: needs_positive_time witness)."),
    "C13": ("Proof. vlan_normalised over all 65536 tag-control values, vlan_tag_injective, learn_last_writer, learn_expiry, disconnect_forgets; learned_until (all histories), "
            "no_learning_unless_flag, learning_records_source; node level: see the theorem list of the check.",
            "An announcement that drops a claim of P also flushes addresses learned from P (theorem announce_drop_flushes_learned; the property text does not mention it)."),
    "C14": ("Proof. self_detect and self_handshake_in_history (a handshake carrying the node's own salted id never adds a peer, all histories), own_addresses_adopted_not_dialled, "
            "own_never_dialled_*, dialled_only_foreign; the exchange step at node level: announcement_lists_every_peer, listed_stranger_is_dialled, listed_known_not_dialled, "
            "exchange_realises_step (+ handshake completion from C05); mesh_closure / bounded_rounds (log2 n rounds complete any connected graph if every round realises Graph.step).",
            "Partial: that every round of the real timing realises the step (announcement interval, handshake inside the round, NAT filter windows, the 20-peer subset) is the named hypothesis "
            "RealisesStep, validated by the suite on all graphs up to 4-5 nodes, not proved."),
    "C15": ("Proof. interval_safe over the expression regenerated from the source (every peer timeout, keepalive and advertised set), housekeep_schedules_safe, announce_reaches_every_peer, "
            "refresh_sets_expiry, timed argument healthy_never_expires (both housekeeping orders), new_peer_announced_next_tick / joined_peer_never_expires (a peer that joins later is announced to at the next tick), silent_removed, expired_peer_redialled, backoff_bounded, reconnect_forever; guards "
            "peerExpired / announceDue / backoff* pinned at their boundaries.",
            "Jitter of the one-second trigger is not modelled. A peer that joins after the interval was chosen used to get its first announcement too late (found with the timed proof, replayed as endless flapping with keepalive 200 / timeouts 100 and 120; repaired in 0c93330: new_peer_announced_next_tick, joined_peer_never_expires)."),
    "C16": ("Proof. nodeinfo_roundtrip, initmsg_roundtrip, rotmsg_roundtrip, range_roundtrip, unknown_parts_skipped, unknown_init_parts_skipped, init_decode_total, readRotMsg_none_iff, "
            "decode_alloc_bounded; decoders are total functions with structural recursion / proved fuel.",
            "A hang cannot be exhibited by a Lean function; the correspondence run observes hangs of the Rust decoders (stall watchdog)."),
    "C17": ("Proof. mask_involutive, keystream_period, long_body_roundtrip, age_window / age_symmetric, decode_never_panics (every text length, via a panic-instrumented copy checked site by site "
            "against the Rust), embedded_found (arbitrary surroundings and junk), several_beacons, other_password_ignored; peerlist_roundtrip_partial.",
            "Partial: the round trip excludes masked bodies with a leading zero byte (known finding, class masked-body-leading-zero) and bodies containing their own end marker. Parametric in the hash."),
    "C18": ("Proof. toBase62_value / fromBase62_value / from_to, generated_key_accepted, generated_pair_usable, same_password_same_keys, different_password_no_trust (kdf injective on a password "
            "class), private_yields_public, printed_pair_consistent, mismatched_pair_rejected.",
            "Ed25519 key derivation and PBKDF2 are parameters."),
    "C19": ("Proof. frame_exact / packet_exact (model = declarative dissector on every byte string), frame_reject_iff, frame_only_header.",
            "Full; std slice semantics trusted."),
    "C20": ("Proof over the rule table regenerated from the source: rules_match (documented table), precedence, lists_accumulate, roundtrip, netmask_exact.",
            "YAML / argv parsing is glue covered by the correspondence only."),
}


def level_text(pid, default):
    return LEVELS[pid][0] if pid in LEVELS else default


def level_note(pid, default):
    return (LEVELS[pid][1] + COMMON_NOTE) if pid in LEVELS else default
