"""C06 (handshake, PeerCrypto level; node level in the node suite)."""
from ..core import Script
from .. import initgen
from .. import nodegen
from . import _nodecommon

ID = "C06"
SUITES = ["init", "node", "config"]
LEAN_MODULES = ["VpnCloud.Proofs.C06", "VpnCloud.Proofs.C02More", "VpnCloud.Proofs.C06Config"]
THEOREMS = ["VpnCloud.Proofs.C06." + n for n in ("select_spec", "selectRef_symm", "select_symm", "selectRef_perm", "plain_iff_both", "fail_iff_none_common", "selected_is_best", "selected_tiebreak")]
THEOREMS = THEOREMS + ["VpnCloud.Proofs.C02More." + n for n in ('select_plain_iff_both', 'plain_only_if_both', 'session_plain_needs_peer_flag', 'responder_plain_needs_ping_flag', 'plain_peer_only_by_plain_handshake')]
THEOREMS = THEOREMS + ["VpnCloud.Proofs.C06Config." + n for n in ('parse_plain_iff', 'parse_ciphers', 'parse_error_iff', 'parse_empty_is_default', 'parse_perm', 'parse_case_insensitive', 'plain_position_irrelevant', 'outcome_depends_on_sets_only', 'outcome_perm_respelled', 'unencrypted_iff', 'fails_iff', 'cipher_iff', 'decoded_list_determined_by_signed_region', 'tampered_list_fails')]
BATCH = 20
SEARCH_BUDGET_S = 400
EXPECTED_CLASSES = ["ideliver:reply", "ideliver:init", "ideliver:err:crypto", "ideliver:err:parse", "ideliver:msg"]
TRUSTED_BASE = ["Ed25519 (ring) idealised: a signature verifies iff it is the signature of a logged genuine message under that key (I1); X25519 symbolic (L2, I3); AEAD ideal (I2)",
                "SHA-256 is computed in the driver glue only; all theorems are parametric in the hash",
                "salts, ephemeral keys, counter start values, ciphertext and signature bytes are observed from the implementation and handed to the model"]
ASSUMPTIONS = ["idealised signatures / AEAD / ECDH as named hypotheses; cipher speeds are finite non-negative floats"]


def obs_class(op, obs):
    k = op.split(" ", 1)[0].replace("ideliver-from", "ideliver")
    r = obs.split(" | ", 1)[0]
    head = r.split(" ", 1)[0]
    if head.startswith("msg:"):
        head = "msg"
    return k + ":" + head


def nontrivial_key(op, obs):
    t = op.split(" ")
    k = t[0].replace("ideliver-from", "ideliver")
    if " | " not in obs:
        return None
    res, st = obs.split(" | ", 1)
    f = dict(x.split("=", 1) for x in st.split(" ") if "=" in x)
    mut = "-"
    for x in t[3:]:
        if "=" in x:
            mut = x.split("=")[0]
    return (k, res.split(" ", 1)[0].split(":")[0:2].__str__(), f.get("init", "-").split("/")[0], f.get("algo"), mut)


def classify(script, result):
    return None
RULE = ("suite init: every pair of subsets of {plain, aes128, aes256, chacha20} (256 pairs) x orderings of each list (all in thorough, one random in quick) x speeds "
        "from a grid with ties, zero, denormal and huge values x both initiator assignments, through real handshakes with prescribed speeds; "
        "distinct non-trivial = distinct (op, result class, stage, cipher, mutation kind)")
EXPLANATION = "select_spec / select_symm / select_perm: the model of select_algorithm equals the declarative selectRef, which is symmetric and order independent"
LEVEL_TEXT = EXPLANATION
LEVEL_NOTE = "for advertised lists without duplicate ciphers (a node builds its list from a set of names); NaN excluded by the property"
TECHNIQUE = "Lean 4 proof (model select = declarative reference, symmetry, permutation invariance) + differential correspondence through real handshakes"
DESIGN_REF = "DESIGN.md section 5, C06"


def gen(tier, rng):
    for x in initgen.c06_scripts(rng, tier == "thorough"):
        yield x
    # which ciphers a node "enabled": the cipher list through the configuration merge (a command-line list replaces the file's list, it does not extend it)
    from . import C20 as _c20
    kops = ["cfgdefault"]
    for _ in range(200 if tier == "thorough" else 40):
        fo = ["algorithms"] if rng.chance(3, 4) else []
        ao = ["algorithms"] if rng.chance(3, 4) else []
        kops.append("%s %s %s" % (rng.choice(["cfgmerge", "cfgrt"]), _c20.file_assign(rng, fo), _c20.arg_assign(rng, ao)))
    yield Script("cipher-list-merge", kops, {"suite": "config"})
    # the advertised set is the configured set, whatever the order and spelling of the user's list
    yield initgen.cfg_algos_script(rng.fork("cfg"), "cfg-algos", tier == "thorough")
    # "altering the lists in transit makes the handshake fail": every cipher id / speed edit of a genuine ping and pong (each receiver stage), then the genuine
    # messages complete the handshake; cipher lists of a newer peer (unknown ids), genuinely signed: the known entries decide
    yield initgen.c01_script(rng.fork("tamper"), [0, 1], [0, 1], tier == "thorough", "tamper-lists")
    for sc in initgen.signed_parts_scripts(rng.fork("signed"), tier == "thorough"):
        yield sc
    r = rng.fork("node")
    yield nodegen.plain_script(r, "node-plain-mixed", [True, False, "only"])
    yield nodegen.plain_script(r, "node-plain-pair", ["only", True])

obs_class, nontrivial_key = _nodecommon.with_node(obs_class, nontrivial_key)
