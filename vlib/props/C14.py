"""C14 (node level)."""
from ..core import Script
from .. import nodegen
from ._nodecommon import *

ID = "C14"
LEAN_MODULES = ["VpnCloud.Proofs.C14", "VpnCloud.Proofs.C01More", "VpnCloud.Proofs.GuardsUsed", "VpnCloud.Proofs.C14Exchange"]
THEOREMS = ["VpnCloud.Proofs.C14." + n for n in ("self_detect", "mesh_halving", "mesh_closure")] + [
    "VpnCloud.Proofs.C01More." + n for n in ("self_handshake_never_adds_peer", "self_handshake_closes_attempt", "pendLive_reach", "self_handshake_in_history",
        "own_addresses_adopted_not_dialled", "own_entries_adopted", "dialled_only_foreign", "connect_skips_own", "connectSock_skips_own",
        "own_never_dialled_net", "own_never_dialled_tick", "own_never_dialled_connect", "own_never_dialled_iface", "own_never_dialled_needs_sender")]
THEOREMS = THEOREMS + ["VpnCloud.Proofs.GuardsUsed." + n for n in ('ownResetDue_boundary',)]
THEOREMS = THEOREMS + ["VpnCloud.Proofs.C14Exchange." + n for n in ('announcement_lists_every_peer', 'announcement_roundtrip', 'tick_announcement_lists_every_peer', 'listed_stranger_is_dialled', 'listed_known_not_dialled_entry', 'listed_known_not_dialled', 'all_known_nothing_dialled', 'exchange_realises_step', 'dialled_handshake_completes', 'exchange_then_handshake', 'bounded_rounds', 'bounded_rounds_stable', 'bounded_rounds_nodes', 'noInterference_needed')]
RULE = ("suite node: all connected labelled graphs on 2-4 nodes (quick: all on 2-3, sampled on 4; thorough: also 5 and sampled 6-8) as connect instructions with a dialling orientation per edge, NAT on/off; "
        "self-dial scenarios in which a node's own handshake datagrams return to it from differing source addresses, alone and inside a mesh; full mesh and never-self-peer are checked; "
        "distinct non-trivial = distinct (op, #datagrams out, #interface writes, #peers, #pending, mutation kind)")
EXPLANATION = "self_detect / never_self_peer (state invariant checked after every step) and mesh closure within a bounded number of peer-exchange intervals"
LEVEL_TEXT = EXPLANATION
LEVEL_NOTE = "convergence of the real timing is validated on the enumerated graphs, the theorem covers self-exclusion and the abstract closure"
TECHNIQUE = "Lean 4 proof (self-detection, abstract mesh closure) + differential correspondence + reference monitor (state invariant, mesh expectation)"
DESIGN_REF = "DESIGN.md section 5, C14"


def gen(tier, rng):
    thorough = tier == "thorough"
    for m in (False, True):
        yield nodegen.self_dial_script(rng, "self-dial-%d" % m, m)
    # the peer exchange rests on the peer list surviving the wire: node information with address lists of both families round-trips (codec suite, as in C16)
    from . import C16 as _c16
    import itertools as _it
    for sc in _it.islice(_c16._gen_base(tier, rng.fork("codec")), 4):
        yield sc
    yield nodegen.translated_script(rng, "translated")
    yield nodegen.translated_script(rng, "translated-after-self-dial", self_dial_first=True)
    yield nodegen.advertised_script(rng, "advertised")
    yield nodegen.translated_long_script(rng, "translated-long")
    # "including nodes behind address-filtering NATs that dial each other": dual open with the first ping filtered, several times (the roles are random)
    for i in range(8 if thorough else 4):
        yield nodegen.nat_dialback_script(rng, "nat-dialback-%d" % i, both_nat=(i % 2 == 0), wait=0)
    yield nodegen.nat_dialback_script(rng, "nat-dialback-late", both_nat=False, wait=125)
    # meshes whose nodes enabled 'plain' (unencrypted sessions): the peer exchange must work all the same
    plain = nodegen.algos_str(True, [])
    yield nodegen.c14_graph_script(rng, "graph-plain-3", 3, [(1, 2), (2, 3)], seconds=10, algos=plain)
    # (three nodes: a handshake payload then lists at most one peer.  With more, the hash-map order of the peer list inside an UNSEALED handshake payload
    #  becomes visible one step after the attempt was created, which the model glue cannot follow: DESIGN.md section 12.)
    yield nodegen.c14_graph_script(rng, "graph-plain-3b", 3, [(3, 1), (2, 3)], seconds=10, algos=nodegen.algos_str(True, [("chacha", 400.0)]))
    # peer lists with arbitrary content from an established peer: the receiver itself under foreign addresses, known nodes under unknown addresses
    for i in range(6 if thorough else 2):
        yield nodegen.announce_script(rng, "announce-%d" % i, 120 if thorough else 50)
    i = 0
    for n in ([2, 3, 4, 5] if thorough else [2, 3, 4]):
        for es in nodegen.connected_graphs(n):
            if n >= 4 and not rng.chance(1, 2 if thorough and n == 4 else 12 if n == 4 else 60):
                continue
            # orientation per edge
            oriented = [(a, b) if rng.chance(1, 2) else (b, a) for (a, b) in es]
            nat = {p: rng.choice([0, 0, 1]) for p in range(1, n + 1)} if rng.chance(1, 3) else None
            if nat:
                # a node behind the mock NAT hears only from addresses it has sent to: the connect instructions
                # count as a usable link only if the NATed end dials (both dial when both are NATed)
                fixed = []
                for (a, b) in oriented:
                    if nat.get(a) and nat.get(b):
                        fixed += [(a, b), (b, a)]
                    elif nat.get(b):
                        fixed.append((b, a))
                    else:
                        fixed.append((a, b))
                oriented = fixed
            i += 1
            yield nodegen.c14_graph_script(rng, "graph-%d-%d" % (n, i), n, oriented, nat=nat, seconds=6 + 3 * n)
