"""C20 - Configuration sources combine as documented."""
from ..core import Script, hx

ID = "C20"
SUITES = ["config"]
LEAN_MODULES = ["VpnCloud.Proofs.C20"]
THEOREMS = ["VpnCloud.Proofs.C20." + n for n in ("rules_match", "scope_ok", "rule_eq_spec", "merge_eq_spec_generic", "merge_eq_spec", "precedence", "lists_accumulate", "netmask_exact", "roundtrip")]
BATCH = 50
SEARCH_BUDGET_S = 300
RULE = ("suite config: per option all presence combinations (absent / in file / on the command line / both) with distinct values — exhaustive per option and pairwise across options, "
        "random full combinations — rendered by the driver as real YAML text (serde_yaml) and a real argv (structopt); round trip of the effective configuration through the file form; "
        "interface addresses with every prefix length 0..40, omitted prefix, signs, and malformed strings; distinct non-trivial = distinct (op, set of options given in the file, set given "
        "on the command line) resp. (prefix class, outcome)")
EXPECTED_CLASSES = ["cfgmerge:cfg", "cfgrt:cfg", "netmask:ok", "netmask:err", "cfgdefault:cfg"]
TRUSTED_BASE = ["YAML and argv parsing (serde_yaml, structopt) are glue exercised by the correspondence only; the option-name tables of the driver follow the documented names",
                "the rule table is regenerated from src/config.rs by translate/configrules.py on every run (a statement it cannot match is a broken obligation)"]
ASSUMPTIONS = ["sources are well-typed for the option table (what serde / structopt guarantee)"]
EXPLANATION = ("rules_match (by decide on the regenerated table): every overlay rule implements the documented kind of its option; merge_eq_spec: hence the overlay of defaults, file and "
               "command line equals the documented combination for all sources; roundtrip through the file form; netmask_exact.")
LEVEL_TEXT = EXPLANATION
LEVEL_NOTE = "the documented semantics (docTable in Spec/C20.lean) is written by hand from vpncloud.adoc"
TECHNIQUE = "Lean 4 proof over a rule table regenerated from the source (translation) + differential correspondence through real YAML / argv parsing"
DESIGN_REF = "DESIGN.md section 5, C20"

SCALARS = {"device_type": ["tun", "tap"], "device_name": ["vpn0", "tap%d"], "listen": ["1.2.3.4:5", "3211", "[::]:99"], "peer_timeout": ["0", "77", "65536"],
           "beacon_interval": ["1", "7200"], "mode": ["normal", "router", "switch", "hub"], "switch_timeout": ["10", "301"]}
OPTIONALS = {"device_path": ["/dev/net/tun", "/x"], "ip": ["10.0.0.1/24", "10.0.0.2"], "ifup": ["up.sh", "ifup"], "ifdown": ["down.sh"], "password": ["secret", "pw2"],
             "public_key": ["pubA", "pubB"], "keepalive": ["0", "5", "900"], "beacon_store": ["/tmp/b1", "b2"], "beacon_load": ["/tmp/l1", "l2"], "beacon_password": ["bp1", "bp2"],
             "pid_file": ["/run/p1", "p2"], "stats_file": ["/run/s1", "s2"], "statsd_server": ["1.1.1.1:8125", "stat:1"], "statsd_prefix": ["vpn", "pfx2"],
             "private_key": ["privA", "privB"], "user": ["nobody", "u2"], "group": ["nogroup", "g2"]}
LISTS = {"peers": ["a:1", "b:2", "c.example:3210", "d:4"], "claims": ["10.0.0.0/8", "10.1.0.0/16", "fd00::/8"], "trusted_keys": ["k1", "k2", "k3"],
         "advertise_addresses": ["5.5.5.5:1", "6.6.6.6:2"], "algorithms": ["aes128", "chacha20", "plain", "aes256"]}


def file_assign(rng, opts):
    out = []
    for o in opts:
        if o in SCALARS:
            out.append("%s=%s" % (o, rng.choice(SCALARS[o])))
        elif o in OPTIONALS:
            out.append("%s=%s" % (o, rng.choice(OPTIONALS[o])))
        elif o in LISTS:
            n = rng.choice([0, 1, 2, 3]) if o != "algorithms" else rng.choice([0, 1, 2])
            vals = [rng.choice(LISTS[o]) for _ in range(n)]
            out.append("%s=%s" % (o, ",".join(vals)))
        elif o in ("fix_rp_filter", "auto_claim", "port_forwarding"):
            out.append("%s=%s" % (o, rng.choice(["true", "false"])))
        elif o == "hook":
            out.append("hook=%s" % rng.choice(["filehook.sh", "fh2"]))
        elif o == "hooks":
            n = rng.range(1, 3)
            out.append("hooks=%s" % ",".join("%s:%s" % (rng.choice(["peer_connected", "vpn_started", "ev3"]), rng.choice(["f1.sh", "f2.sh"])) for _ in range(n)))
    return ";".join(out) if out else "-"


def arg_assign(rng, opts):
    out = []
    for o in opts:
        if o in SCALARS:
            out.append("%s=%s" % (o, rng.choice(SCALARS[o])))
        elif o == "keepalive":
            out.append("keepalive=%s" % rng.choice(["1", "6", "901"]))           # numeric: a value the file assignments never use
        elif o in ("ifup", "ifdown", "device_path", "statsd_prefix", "user") and rng.chance(1, 4):
            out.append("%s=" % o)                  # an EMPTY value on the command line is a value too: it replaces the file's
        elif o in OPTIONALS:
            out.append("%s=%s" % (o, rng.choice(OPTIONALS[o]) + "A"))
        elif o in LISTS:
            n = rng.choice([1, 2, 3]) if o != "algorithms" else rng.choice([1, 2])
            out.append("%s=%s" % (o, ",".join(rng.choice(LISTS[o]) for _ in range(n))))
        elif o == "fix_rp_filter":
            out.append("fix_rp_filter=true")
        elif o == "auto_claim":
            out.append("no_auto_claim=true")
        elif o == "port_forwarding":
            out.append("no_port_forwarding=true")
        elif o == "daemonize":
            out.append("daemon=true")
        elif o in ("hook", "hooks"):
            n = rng.range(1, 3)
            out.append("hook=%s" % ",".join(rng.choice(["argdefault.sh", "peer_connected:a1.sh", "ev3:a2.sh", "vpn_started:a:b", "plain2",
                                                       "peer_connected:logger -t vpn connected%2Cup".replace(" ", "_"), "x.sh%2Cy"]) for _ in range(n)))
    # de-duplicate the hook key (hook and hooks share --hook)
    seen, res = set(), []
    for kv in out:
        k = kv.split("=")[0]
        if k in seen:
            continue
        seen.add(k)
        res.append(kv)
    return ";".join(res) if res else "-"


ALL = list(SCALARS) + list(OPTIONALS) + list(LISTS) + ["fix_rp_filter", "auto_claim", "port_forwarding", "hook", "hooks"]


def fix_arg_opts(rng, ao):
    """structopt constraints: --statsd-prefix requires --statsd-server; --private-key conflicts with --password"""
    ao = list(ao)
    if "statsd_prefix" in ao and "statsd_server" not in ao:
        ao.append("statsd_server")
    if "private_key" in ao and "password" in ao:
        ao.remove(rng.choice(["private_key", "password"]))
    return ao


def obs_class(op, obs):
    k = op.split(" ", 1)[0]
    if k == "netmask":
        return "netmask:" + obs.split(":", 1)[0]
    return k + ":" + ("cfg" if "device_type=" in obs else obs.split(":", 1)[0])


def nontrivial_key(op, obs):
    t = op.split(" ")
    if t[0] == "netmask":
        return ("netmask", t[1][-8:], obs.split(":", 1)[0])
    if t[0] in ("cfgmerge", "cfgrt") and len(t) >= 3:
        f = tuple(sorted(x.split("=")[0] for x in t[1].split(";") if "=" in x))
        a = tuple(sorted(x.split("=")[0] for x in t[2].split(";") if "=" in x))
        if not f and not a:
            return None
        return (t[0], f, a)
    return None


def classify(script, result):
    return None


def gen(tier, rng):
    thorough = tier == "thorough"
    ops = ["cfgdefault"]
    # per option: absent / file / args / both
    for o in ALL + ["daemonize"]:
        for _ in range(6 if thorough else 2):
            for in_file, in_args in ((0, 0), (1, 0), (0, 1), (1, 1)):
                f = file_assign(rng, [o] if in_file and o != "daemonize" else [])
                a = arg_assign(rng, fix_arg_opts(rng, [o]) if in_args else [])
                ops.append("%s %s %s" % (rng.choice(["cfgmerge", "cfgrt"]), f, a))
    # pairwise across options
    pairs = [(a, b) for i, a in enumerate(ALL) for b in ALL[i + 1:]]
    for (x, y) in pairs:
        if not thorough and not rng.chance(1, 3):
            continue
        fo = [o for o in (x, y) if rng.chance(2, 3)]
        ao = fix_arg_opts(rng, [o for o in (x, y) if rng.chance(2, 3)])
        ops.append("%s %s %s" % (rng.choice(["cfgmerge", "cfgrt"]), file_assign(rng, fo), arg_assign(rng, ao)))
    # random full combinations
    for _ in range(4000 if thorough else 300):
        fo = [o for o in ALL if rng.chance(1, 3)]
        ao = [o for o in ALL + ["daemonize"] if rng.chance(1, 4)]
        ao = fix_arg_opts(rng, ao)
        ops.append("%s %s %s" % (rng.choice(["cfgmerge", "cfgrt"]), file_assign(rng, fo), arg_assign(rng, ao)))
    # netmask
    for p in list(range(0, 41)) + [255, 256, 100]:
        for ip in ("10.0.0.1", "192.168.1.254"):
            ops.append("netmask " + hx(("%s/%d" % (ip, p)).encode()))
    for s in ["10.0.0.1", "10.0.0.1/", "10.0.0.1/+8", "10.0.0.1/-1", "10.0.0.1/08", "10.0.0.1/ 8", "10.0.0/8", "10.0.0.256/8", "1.2.3.4/8/9", "/8", "", "a.b.c.d/8",
              "10.0.0.1/0x10", "010.0.0.1/8", "10.0.0.1/32", "10.0.0.1/33", "::1/64", "1.2.3.4/24 ", "1.2.3.4/２４",
              # characters of more than one byte BEFORE the slash (byte offset and character index of the slash differ)
              "10.0.1.１/24", "10.0.1.é/8", "ää/8", "ä/8", "１/8", "€€€/1", "ä", "é10.0.0.1/8", "1０.0.0.1/16", "ääää/ä", "\U0001f600/8"]:
        ops.append("netmask " + hx(s.encode()))
    rng.shuffle(ops)
    for i in range(0, len(ops), 50):
        yield Script("config-%d" % (i // 50), ops[i:i + 50], {"suite": "config"})
