"""Shared pieces of the node-level property modules."""

SUITES = ["node"]
BATCH = 8
SEARCH_BUDGET_S = 300
EXPECTED_CLASSES = ["ndeliver:events", "nhk:ok", "nframe:events"]
TRUSTED_BASE = [
    "cryptography idealised as in C01/C02/C05/C07 (signatures, AEAD, ECDH symbolic; SHA-256 in the driver glue only)",
    "random choices (node ids, salts, ephemeral keys, counter starts, ciphertext and signature bytes) are observed from the implementation",
    "not modelled: the epoll loop of GenericCloud::run (the model starts at handle_socket_event / handle_device_event / housekeep, where the repository's "
    "own mock socket, device and clock plug in), DNS resolution, beacons at node level, port forwarding, statistics output, hook scripts",
]
ASSUMPTIONS = ["meshes have fewer than 20 peers per node (the random 20-subset of the peer list is not modelled)", "addresses are literal socket addresses"]


def obs_class(op, obs):
    k = op.split(" ", 1)[0]
    head = obs.split(" ", 1)[0]
    if head.startswith("out=") or head in ("ok", "err"):
        return k + ":" + ("events" if "out=[" in obs else head)
    return k + ":" + head[:12]


def nontrivial_key(op, obs):
    t = op.split(" ")
    k = t[0]
    if " | " not in obs:
        return None
    ev, st = obs.split(" | ", 1)
    nout = ev.count(">")
    ndev = 0 if "dev=[]" in ev else ev.split("dev=[")[1].count(";") + 1 if "dev=[" in ev else 0
    npeers = st.split(" pending=[")[0].count("{")
    npend = st.split(" pending=[")[1].split("] own=[")[0].count("{") if " pending=[" in st else 0
    mut = "-"
    for x in t[2:]:
        if "=" in x and x.split("=")[0] in ("flip", "trunc", "set", "app"):
            mut = x.split("=")[0]
    return (k, min(nout, 4), ndev, npeers, npend, mut)


def classify(script, result):
    return None


def with_node(obs_class_fn, key_fn):
    """dispatch node-suite operations (they all start with 'n') to the node versions"""
    node_oc, node_key = obs_class, nontrivial_key

    def oc(op, obs):
        return node_oc(op, obs) if op.startswith("n") and not op.startswith("netmask") else obs_class_fn(op, obs)

    def key(op, obs):
        return node_key(op, obs) if op.startswith("n") and not op.startswith("netmask") else key_fn(op, obs)
    return oc, key
