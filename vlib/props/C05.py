"""C05 (handshake, PeerCrypto level; node level in the node suite)."""
from ..core import Script
from .. import initgen
from .. import nodegen
from . import _nodecommon

ID = "C05"
SUITES = ["init", "node", "codec"]
LEAN_MODULES = ["VpnCloud.Proofs.C05", "VpnCloud.Proofs.C05Lockstep", "VpnCloud.Proofs.C05Agree", "VpnCloud.Proofs.C05Recover", "VpnCloud.Proofs.GuardsUsed"]
THEOREMS = ["VpnCloud.Proofs.C05." + n for n in ("masterKey_comm", "masterKey_comm_wf", "masterKey_inj", "halves_opposite", "initiator_success_binds", "no_second_success", "success_stage")] + [
            "VpnCloud.Proofs.C05Lockstep.lockstep_completes", "VpnCloud.Proofs.C05Lockstep.lockstep_completes_run", "VpnCloud.Proofs.C05Lockstep.ping_accepted", "VpnCloud.Proofs.C05Lockstep.pong_completes_initiator", "VpnCloud.Proofs.C05Lockstep.peng_completes_responder", "VpnCloud.Proofs.C05Lockstep.Toy.hyps_cipher", "VpnCloud.Proofs.C05Lockstep.Toy.hyps_plain"]
THEOREMS = THEOREMS + ["VpnCloud.Proofs.C05Agree." + n for n in ('responder_success_binds', 'inv_step', 'inv_reach', 'success_at_most_once', 'attempt_agreement', 'role_switch_exclusive', 'attempt_agreement_payloads')]
THEOREMS = THEOREMS + ["VpnCloud.Proofs.C05Recover." + n for n in ('rinv_reach', 'reachable_classes', 'reachable_combinations', 'reliable_rounds_complete', 'measure_decreases', 'abs_one_round_not_enough', 'closed_initiator_dead_end', 'give_up_is_bounded', 'completed_initiator_closes', 'Toy.start_bound_needed', 'Toy.dead_end_reachable', 'Toy.ping_lost_recovered', 'Toy.pong_lost_recovered', 'Toy.peng_lost_recovered', 'Toy.dual_open_recovered')]
THEOREMS = THEOREMS + ["VpnCloud.Proofs.GuardsUsed.retryAllowed_boundary"]
BATCH = 10
SEARCH_BUDGET_S = 400
EXPECTED_CLASSES = ["ideliver:reply", "ideliver:init", "ideliver:err:crypto", "ideliver:err:parse", "ideliver:msg"]
TRUSTED_BASE = ["Ed25519 (ring) idealised: a signature verifies iff it is the signature of a logged genuine message under that key (I1); X25519 symbolic (L2, I3); AEAD ideal (I2)",
                "SHA-256 is computed in the driver glue only; all theorems are parametric in the hash",
                "salts, ephemeral keys, counter start values, ciphertext and signature bytes are observed from the implementation and handed to the model"]
ASSUMPTIONS = ["idealised signatures / AEAD / ECDH as named hypotheses; cipher speeds are finite non-negative floats"]


def obs_class(op, obs):
    if op.startswith("n"):
        return _nodecommon.obs_class(op, obs)
    k = op.split(" ", 1)[0].replace("ideliver-from", "ideliver")
    r = obs.split(" | ", 1)[0]
    head = r.split(" ", 1)[0]
    if head.startswith("msg:"):
        head = "msg"
    return k + ":" + head


def nontrivial_key(op, obs):
    if op.startswith("n"):
        return _nodecommon.nontrivial_key(op, obs)
    t = op.split(" ")
    k = t[0].replace("ideliver-from", "ideliver")
    if " | " not in obs:
        return None
    res, st = obs.split(" | ", 1)
    f = dict(x.split("=", 1) for x in st.split(" ") if "=" in x)
    mut = "-"
    for x in t[3:]:
        if "=" in x:
            mut = x.split("=")[0]
    return (k, res.split(" ", 1)[0].split(":")[0:2].__str__(), f.get("init", "-").split("/")[0], f.get("algo"), mut)


def classify(script, result):
    return None
RULE = ("node level: 2-3 nodes under a seeded adversarial network (drop / duplicate / reorder, asymmetric loss) followed by a reliable phase of peer timeout + retry horizon, then payload both ways and mutual connection; "
        "suite init: all schedules over {A initiates, B initiates, deliver latest / second latest datagram of either side, tick A, tick B} to depth 5 (quick, sampled at depth 5) / 7 "
        "(thorough, sampled above 5), real handshake objects re-executed per schedule, followed by sealed probes both ways; random schedules to depth 60 / 200 with "
        "reflection and mutations; long runs with key rotation under random loss; distinct non-trivial = distinct (op, result class, stage, cipher, mutation kind)")
EXPLANATION = "C05 safety at PeerCrypto level: agreement of completed partners on key, cipher, roles and payload; completes at most once (reference monitor + correspondence)"
LEVEL_TEXT = EXPLANATION
LEVEL_NOTE = "liveness after healing is a node-level matter (new attempts): node suite"
TECHNIQUE = "Lean 4 proof over the byte-level handshake model + differential correspondence + reference monitor"
DESIGN_REF = "DESIGN.md section 5, C05"


def gen(tier, rng):
    thorough = tier == "thorough"
    n = 0
    maxd = 7 if thorough else 5
    for d in range(1, maxd + 1):
        for seq in initgen.c05_schedules(rng, d):
            if "initA" not in seq and "initB" not in seq:
                continue
            if d >= 4 and not rng.chance(1, {4: 6, 5: 60, 6: 600, 7: 6000}[d] if not thorough else {4: 1, 5: 6, 6: 60, 7: 600}[d]):
                continue
            n += 1
            yield initgen.c05_script(rng, seq, "sched-%d-%d" % (d, n))
    for i in range(600 if thorough else 60):
        yield initgen.c05_random(rng, rng.range(10, 200 if thorough else 60), "rand-%d" % i)
    for i in range(6 if thorough else 1):
        yield initgen.rotation_run(rng, "rotation-%d" % i, 900 if thorough else 380)
    # "each received exactly the node information the other offered": the offered information at the format's limits (7 addresses per family)
    from . import C16 as _c16
    yield _c16.boundary_ni_script(rng.fork("ni"), "ni-boundary")
    # "never both complete … with different … ciphers": cipher lists in different orders with equal speeds at the top, both initiators
    yield initgen.equal_salt_script(rng.fork("salt"), "equal-salt")       # also the simultaneous open of two attempts that drew the same salt
    for s in initgen.c06_tie_scripts(rng.fork("ties"), thorough):
        yield s
    # node level: adversarial network followed by a reliable phase of peer timeout + handshake retry horizon
    yield nodegen.restart_script(rng, "restart-dial-2", 2)
    yield nodegen.restart_script(rng, "restart-dial-1", 1)
    yield nodegen.healing_script(rng, "heal-asym-12", 2, pt=60, chaos=100, asym=(1, 2))
    yield nodegen.stale_responder_script(rng, "stale-responder")
    yield nodegen.half_open_script(rng, "half-open-60-900")        # the peer advertises a longer timeout than the node's own
    # "each opens what the other seals" also when no cipher was negotiated (both enabled plain)
    yield nodegen.plain_script(rng, "plain-pair", ["only", True], seconds=6)
    yield nodegen.plain_script(rng, "plain-all", [True, True, True], seconds=4)
    # a late duplicate of the first ping opens an attempt next to the live session; when it is given up nothing may stay behind that blocks later handshakes
    yield nodegen.late_duplicate_script(rng, "late-duplicate-ping")
    yield nodegen.healing_script(rng, "heal-asym-21", 2, pt=60, chaos=100, asym=(2, 1))
    for i in range(30 if thorough else 4):
        yield nodegen.healing_script(rng, "heal-%d" % i, rng.choice([2, 2, 3]), pt=rng.choice([60, 60, 130]), chaos=rng.choice([20, 60, 100, 130]), drop=rng.choice([30, 50, 70, 90]))
