"""C17 - Beacons round-trip, are found inside arbitrary text, respect age and password."""
import hashlib
from ..core import Script, hx

ID = "C17"
SUITES = ["beacon"]
LEAN_MODULES = ["VpnCloud.Proofs.C17", "VpnCloud.Proofs.C17More"]
THEOREMS = ["VpnCloud.Proofs.C17." + n for n in ("mask_length", "mask_involutive", "mask_wf", "encrypt_decrypt", "age_window", "peerlist_roundtrip_partial", "too_old_ignored", "findSub_sound", "findSub_none", "decode_clean", "keystream_period", "long_body_roundtrip", "long_body_roundtrip_beyond")]
THEOREMS = THEOREMS + ["VpnCloud.Proofs.C17More." + n for n in ('decode_never_panics', 'embedded_found', 'embedded_found_unbordered', 'several_beacons', 'several_beacons_unbordered', 'extracted_needs_markers', 'foreign_seed_check', 'other_password_ignored', 'age_symmetric', 'too_old', 'too_new', 'too_old_wrapped', 'wrap_instances', 'beacon_age', 'no_ttl_accepts_all', 'sanitize_interleave', 'mask_never_panics', 'old_counter_overflows', 'overflow_text_exists_old')]
BATCH = 100
SEARCH_BUDGET_S = 300
RULE = ("suite beacon: brt = encode at one hour, embed in host text (random alphanumerics and punctuation before / behind, separators interleaved in 4 modes), "
        "decode at another hour with an age limit and the same or a different password; address lists with 0..8 IPv4 and 0..4 IPv6 entries; hour stamps: all 65536 "
        "for one list in thorough, 3000 sampled in quick incl. the wrap; 200 / 40 passwords incl. empty; bdec on texts with partial and overlapping markers, several "
        "beacons, marker-only texts; distinct non-trivial = distinct (op, #v4, #v6, age class, separator mode, outcome)")
EXPECTED_CLASSES = ["brt:found", "brt:empty", "bdec:got", "benc:text"]
TRUSTED_BASE = ["SHA-512 is a parameter of the model (computed in the driver glue for the differential run)"]
ASSUMPTIONS = ["round trip excludes beacons whose masked body starts with a zero byte (known finding F-C17a) and host texts in which the body contains its own end marker"]
EXPLANATION = ("mask_involutive, encrypt_decrypt, peerlist_roundtrip_partial (hypothesis: masked body does not start with 0x00), age_window; "
               "parametric in the hash. The reference monitor demands recovery / rejection by age / rejection by password on the implementation's answers.")
LEVEL_TEXT = EXPLANATION
LEVEL_NOTE = "two theorems are _partial with the missing part named; F-C17a is a known finding (KNOWN_FINDINGS.txt)"
TECHNIQUE = "Lean 4 proof (xor masking involution, base-62 round trip from C18, wrapping age arithmetic) + differential correspondence + reference monitor"
DESIGN_REF = "DESIGN.md section 5, C17"

B62 = "0123456789ABCDEFGHIJKLMNOPQRSTUVWXYZabcdefghijklmnopqrstuvwxyz"


def to_b62(b):
    v = int.from_bytes(b, "big")
    s = ""
    while v:
        s = B62[v % 62] + s
        v //= 62
    return s


def ks(pw, t, s, i):
    return hashlib.sha512(bytes([t, s, i]) + pw).digest()


def markers(pw):
    return to_b62(ks(pw, 0, 0, 0))[:5], to_b62(ks(pw, 1, 0, 0))[:5]


def py_beacon(pw, hour, socks, raw=None):
    """reference encoder, used only to build host texts with several beacons (raw: arbitrary plain body with a valid check byte)"""
    v4 = [x for x in socks if x.startswith("4:")]
    v6 = [x for x in socks if x.startswith("6:")]
    data = (hour & 0xffff).to_bytes(2, "big") + bytes([len(v4) & 255])
    for x in v4 + v6:
        _, ip, port = x.split(":")
        data += bytes.fromhex(ip) + int(port).to_bytes(2, "big")
    if raw is not None:
        data = raw
    seed = hashlib.sha512(data).digest()[0]
    out = bytearray()
    it, pos, m = 0, 0, ks(pw, 2, seed, 0)
    for b in data:
        out.append(b ^ m[pos])
        pos += 1
        if pos == 16:
            pos, it = 0, it + 1
            m = ks(pw, 2, seed, it & 255)
    out.append(seed ^ ks(pw, 3, 0, 0)[0])
    b, e = markers(pw)
    return b + to_b62(bytes(out)) + e


def obs_class(op, obs):
    k = op.split(" ", 1)[0]
    if k == "brt":
        return "brt:" + ("empty" if obs.endswith("got=-") else "found" if "got=" in obs else obs[:6])
    if k == "bdec":
        return "bdec:" + ("got" if obs.startswith("got=") else obs[:6])
    return k + ":" + ("text" if obs.startswith("text=") else obs[:6])


def nontrivial_key(op, obs):
    t = op.split(" ")
    if t[0] == "brt":
        socks = [] if t[6] == "-" else t[6].split(",")
        age = (int(t[4]) - int(t[3])) % 65536
        ttl = t[5]
        return ("brt", sum(1 for x in socks if x[0] == "4"), sum(1 for x in socks if x[0] == "6"),
                "same" if t[1] == t[2] else "diff", min(age, 65536 - age) // 24 if ttl != "-" else -1, t[8], obs_class(op, obs))
    if t[0] == "bdec":
        return ("bdec", len(t[4]) // 40, obs.count(":") // 2)
    return None


def classify(script, result):
    for sv in result["spec"]:
        if sv.startswith("FAIL") and "[masked-body-leading-zero]" in sv:
            return "masked-body-leading-zero"
    return None


def rand_socks(rng, n4, n6):
    l = ["4:%s:%d" % (rng.bytes(4).hex(), rng.below(65536)) for _ in range(n4)] + \
        ["6:%s:%d" % (rng.bytes(16).hex(), rng.below(65536)) for _ in range(n6)]
    rng.shuffle(l)
    return l


ALNUM = B62
PUNCT = " \n\t.,;:-_/+=()[]<>\"'!?#%&*\x00\x01\x08\x0b\x0e\x1f\x7f~`|{}^$@\\"


def rand_text(rng, n, alnum_only=False):
    return "".join(rng.choice(ALNUM if alnum_only or rng.chance(2, 3) else PUNCT) for _ in range(n))


def gen(tier, rng):
    thorough = tier == "thorough"
    pws = [b"", b"mysecretkey", b"pw138", b"test", "pässwörd".encode(), b"x" * 200] + [("pw%d" % rng.below(10 ** 6)).encode() for _ in range(200 if thorough else 34)]
    ops = []
    # the in-tree vector over hour stamps (all of them in thorough): includes the hours whose masked body starts with 0x00
    vec = ["4:01020304:5678", "4:06060606:53"]
    hours = range(65536) if thorough else sorted(set([0, 1, 10, 2000, 65535, 65534, 32768] + [rng.below(65536) for _ in range(3000)]))
    for h in hours:
        ops.append("brt %s %s %d %d - %s - 0 -" % (hx(b"mysecretkey"), hx(b"mysecretkey"), h, h, ",".join(vec)))
    # general round trips
    for _ in range(20000 if thorough else 1500):
        pw = rng.choice(pws)
        pw2 = pw if rng.chance(5, 6) else rng.choice(pws)
        hour = rng.choice([rng.below(65536), rng.below(10 ** 6), 65535, 0, 65530])
        age = rng.choice([0, 1, 23, 24, 25, 100, 32767, 32768, 32769, 65535, rng.below(65536)])
        now = hour + age if rng.chance(1, 2) else hour - age
        if now < 0:
            now = hour + age
        ttl = rng.choice(["-", "0", "1", "24", "24", "50", "32767", "32768", "65535", str(rng.below(65536))])
        socks = rand_socks(rng, rng.choice([0, 1, 2, 3, 8]), rng.choice([0, 0, 1, 2, 4]))
        pre = rand_text(rng, rng.choice([0, 0, 5, 40]))
        post = rand_text(rng, rng.choice([0, 0, 5, 40]))
        ops.append("brt %s %s %d %d %s %s %s %d %s" % (hx(pw), hx(pw2), hour, now, ttl, ",".join(socks) if socks else "-",
                                                     hx(pre.encode()), rng.below(5), hx(post.encode())))
    # "a beacon made with a different password is ignored": also for long passwords that differ only far behind (every byte of the password counts)
    for n in ([3, 60, 64, 120, 124, 125, 126, 127, 128, 129, 200, 255, 256, 1000] if thorough else [60, 124, 125, 126, 128, 200, 1000]):
        common = rng.bytes(n)
        pw, pw2 = common + b"A", common + b"B"
        hour = rng.below(65536)
        ops.append("brt %s %s %d %d - %s %s %d %s" % (hx(pw), hx(pw2), hour, hour, ",".join(rand_socks(rng, 2, 1)), hx(rand_text(rng, 5).encode()), 0, hx(rand_text(rng, 5).encode())))
        ops.append("brt %s %s %d %d - %s %s %d %s" % (hx(pw), hx(pw), hour, hour, ",".join(rand_socks(rng, 2, 1)), hx(rand_text(rng, 5).encode()), 0, hx(rand_text(rng, 5).encode())))
        ops.append("brt %s %s %d %d - %s - %d -" % (hx(pw + b"C" * 80), hx(pw), hour, hour, ",".join(rand_socks(rng, 1, 0)), 0))
    # decoding of arbitrary / adversarial texts
    for _ in range(20000 if thorough else 1500):
        pw = rng.choice(pws)
        b, e = markers(pw)
        hour = rng.below(65536)
        pieces = []
        for _ in range(rng.range(1, 6)):
            k = rng.below(12)
            if k == 0:
                pieces.append(b)
            elif k == 1:
                pieces.append(e)
            elif k == 2:
                pieces.append(b[:rng.range(1, 4)])
            elif k == 3:
                pieces.append(b[:4] + e)                       # overlapping markers
            elif k == 4:
                pieces.append(b + rand_text(rng, rng.below(6), True) + e)   # short payloads between markers
            elif k == 5:
                pieces.append(py_beacon(pw, hour, rand_socks(rng, rng.below(4), rng.below(2))))
            elif k == 6:
                # bodies of odd sizes with a *valid* check byte: header only, short of the header, misaligned entry lists
                n = rng.choice([0, 1, 2, 2, 2, 3, 4, 8, 9, 10, 21, 26, 27])
                raw = bytearray(rng.bytes(n))
                if n >= 2:
                    raw[0], raw[1] = (hour >> 8) & 255, hour & 255
                if n >= 3:
                    raw[2] = rng.choice([0, 1, 2, 255, raw[2]])
                pieces.append(py_beacon(pw, hour, [], bytes(raw)))
            elif k == 9:
                pieces.append(b + b + e + e)
            elif k == 7:
                pieces.append(e + b)
            else:
                pieces.append(rand_text(rng, rng.below(30)))
        text = "".join(pieces)
        ops.append("bdec %s %d %s %s" % (hx(pw), hour + rng.choice([0, 0, 1, 30]), rng.choice(["-", "24", "0"]), hx(text.encode())))
    # adjacent beacons whose markers OVERLAP: the begin marker of the second starts on the last character of the first one's end marker (passwords for which
    # the two markers allow that are found by search: about one in 62); both peer lists must be found
    found = 0
    for i in range(4000):
        pw = b"ov%d" % i
        b, e = markers(pw)
        if b[0] != e[-1] or len(b) < 5 or len(e) < 5:
            continue
        found += 1
        hour = 2000 + rng.below(1000)
        for _ in range(2):
            s1, s2, s3 = rand_socks(rng, rng.range(1, 3), rng.below(2)), rand_socks(rng, rng.range(1, 3), rng.below(2)), rand_socks(rng, 1, 0)
            b1, b2, b3 = py_beacon(pw, hour, s1), py_beacon(pw, hour, s2), py_beacon(pw, hour, s3)
            text = rand_text(rng, rng.below(8)) + b1[:-1] + b2 + rng.choice(["", rand_text(rng, 3), b3, b3[1:] if b2[-1] == b3[0] else " " + b3]) + rand_text(rng, rng.below(8))
            ops.append("bdec %s %d - %s %s" % (hx(pw), hour, hx(text.encode()), ";".join(",".join(x) for x in (s1, s2, s3))))
    # several beacons in one text, separated by anything or by nothing: all of them are found
    for _ in range(40 if thorough else 10):
        pw = rng.choice(pws[:10])
        hour = 2000 + rng.below(1000)
        lists = [rand_socks(rng, rng.range(1, 4), rng.below(3)) for _ in range(rng.range(2, 4))]
        text = rand_text(rng, rng.below(10))
        for l in lists:
            text += py_beacon(pw, hour, l) + rng.choice(["", " ", rand_text(rng, rng.below(6))])
        ops.append("bdec %s %d %s %s %s" % (hx(pw), hour, rng.choice(["-", "24"]), hx(text.encode()), ";".join(",".join(x) for x in lists)))
        if found >= (6 if thorough else 3):
            break
    for pw in pws[:40]:
        ops.append("benc %s %d %s" % (hx(pw), rng.below(10 ** 6), ",".join(rand_socks(rng, rng.below(5), rng.below(3))) or "-"))
    # long candidate bodies (more than 256 keystream blocks = 4096 bytes: the block counter of the mask loop wraps) and long peer lists
    for n in ([100, 4000, 5400, 5600, 6000, 9000, 20000] if thorough else [5400, 5600, 9000]):
        pw = rng.choice(pws[:6])
        b, e = markers(pw)
        ops.append("bdec %s %d - %s" % (hx(pw), rng.below(65536), hx((rand_text(rng, 7) + b + rand_text(rng, n, True) + e + rand_text(rng, 5)).encode())))
    for (n4, n6) in ([(0, 230), (200, 120), (250, 0)] if thorough else [(0, 230), (40, 215)]):
        pw = rng.choice(pws[:6])
        hour = 2003 + rng.below(50)
        ops.append("brt %s %s %d %d - %s %s %d %s" % (hx(pw), hx(pw), hour, hour, ",".join(rand_socks(rng, n4, n6)), hx(rand_text(rng, 9).encode()), rng.below(5), "-"))
    rng.shuffle(ops)
    for i in range(0, len(ops), 100):
        yield Script("beacon-%d" % (i // 100), ops[i:i + 100], {"suite": "beacon"})
