"""C07 - Key rotation never strands traffic and keeps keys fresh."""
from ..core import Script
from .. import nodegen
from . import _nodecommon

ID = "C07"
SUITES = ["rot", "node", "core"]
LEAN_MODULES = ["VpnCloud.Proofs.C07", "VpnCloud.Proofs.C07More", "VpnCloud.Proofs.C07Session", "VpnCloud.Proofs.RotPanic", "VpnCloud.Proofs.C07Keys", "VpnCloud.Proofs.GuardsUsed"]
THEOREMS = ["VpnCloud.Rot.rotation_sync", "VpnCloud.Rot.inv_step", "VpnCloud.Rot.inv_init",
            "VpnCloud.Rot.inv_reachable", "VpnCloud.Rot.ids_interlock", "VpnCloud.Rot.sent_ids_bounded", "VpnCloud.Rot.only_latest_matters", "VpnCloud.Rot.receive_before_send", "VpnCloud.Rot.receive_before_send_y", "VpnCloud.Rot.latest_sent", "VpnCloud.Rot.lockstep_progress", "VpnCloud.Rot.lockstep_fresh", "VpnCloud.Rot.lockstep_new_keys", "VpnCloud.Rot.lockstep_fresh_keys"]
THEOREMS = THEOREMS + ["VpnCloud.Proofs.C07Session." + n for n in ('op_refines', 'refinement', 'core_slots_are_rot_slots', 'good_reachable', 'session_rotation_sync', 'fresh_payload_opens', 'completion_responder', 'completion_initiator', 'handleRotate_tail_irrelevant', 'rotation_period', 'ahead_progress', 'lost_message_only_delays', 'lockstep_session', 'rotatePanics_tail_irrelevant')]
THEOREMS = THEOREMS + ["VpnCloud.Proofs.RotPanic.honest_sessions_never_panic", "VpnCloud.Proofs.GuardsUsed.rotMsgStale_boundary"]
THEOREMS = THEOREMS + ["VpnCloud.Rot." + n for n in ("K_inj", "greach_sound", "greach_complete", "step_installs_logged", "installed_keys_fresh", "installed_keys_dh", "both_ends_same_exchange_log", "both_ends_same_exchange", "different_exchanges_different_keys")]
BATCH = 100
SEARCH_BUDGET_S = 300
RULE = ("suite rot: real RotationState objects + real CryptoCore key slots; all schedules over {cycle at A, cycle at B, deliver any rotation message "
        "ever sent to its addressee (again), (never deliver = drop)} to depth 7 (quick) / 10 (thorough), re-executed per schedule, a probe sealed by each "
        "end after every step; random schedules over 100+ cycles; loss phases followed by a reliable phase in which both sealing keys must be replaced; "
        "distinct non-trivial = distinct (op kind, rotation outcome, probe outcome, key ids in use)")
EXPECTED_CLASSES = ["rcycle:msg", "rcycle:nomsg", "rdeliver:rot", "rdeliver:norot", "probe:ok"]
TRUSTED_BASE = ["X25519 (ring) idealised as a symbolic commutative pairing K a b; distinct pairs give distinct key material (I3)",
                "AEAD as in C02; ephemeral keys are numbered by first appearance in a sent message on both sides"]
ASSUMPTIONS = ["ECDH law dh a (pub b) = dh b (pub a) and freshness of ephemeral keys"]
EXPLANATION = ("rotation_sync: in every reachable state of the two-party rotation system (any loss, duplication, reordering, delay, relative timing) "
               "each end's current sealing slot holds the same key material at its peer; proved with the inductive invariant Ahead. The rot suite "
               "runs the same process/cycle functions against real RotationState + CryptoCore and probes decryptability after every step.")
LEVEL_TEXT = EXPLANATION
LEVEL_NOTE = "freshness ('replaced at least every second interval while messages get through') is checked on reliable phases by the suite; the theorem covers the safety half"
TECHNIQUE = "Lean 4 proof (inductive invariant over the two-party system with the set of all messages ever sent) + differential correspondence + probes"
DESIGN_REF = "DESIGN.md section 5, C07"


def obs_class(op, obs):
    k = op.split(" ", 1)[0]
    if k == "rcycle":
        return "rcycle:" + ("nomsg" if obs.startswith("msg=- ") else "msg")
    if k == "rdeliver":
        return "rdeliver:" + ("norot" if obs.endswith("rot=-") else "rot")
    if k == "probe":
        return "probe:" + ("ok" if "ab=ok ba=ok" in obs else "stranded")
    return k + ":" + obs.split("=", 1)[0]


def nontrivial_key(op, obs):
    k = op.split(" ", 1)[0]
    if k == "probe":
        f = dict(x.split("=") for x in obs.split(" ") if "=" in x)
        return ("probe", f.get("ab"), f.get("ba"), f.get("cura"), f.get("curb"))
    if k in ("rcycle", "rdeliver"):
        rot = obs.rsplit("rot=", 1)[-1]
        return (k, rot.split(":")[1] if rot != "-" else "-", obs.startswith("msg=-"), min(int(rot.split(":")[0]) if rot != "-" else 0, 12))
    return None


def classify(script, result):
    return None


def exhaustive(depth, name_prefix):
    """all schedules to the given depth; message numbering is deterministic: m0 is A's first message, each cycle that
    emits a message appends one; we do not know statically whether a cycle emits, so deliver ops reference 'latest of side'
    symbolically and are resolved by replaying a tiny abstract counter (mirrors when a message is emitted)."""
    # abstract emission tracker: a side emits on cycle iff (proposed and timeout) or (not proposed and pending)
    def run(seq):
        # state per side: proposed, pending, timeout, id ; messages list of (sender, id)
        st = [dict(prop=True, pend=False, to=False, id=1), dict(prop=False, pend=False, to=False, id=0)]
        msgs = [(0, 1, False)]   # (sender, id, has_confirm)
        ops = ["rnew chacha", "probe"]
        for c in seq:
            if c[0] == "cycle":
                s = st[c[1]]
                if s["prop"]:
                    if s["to"]:
                        msgs.append((c[1], s["id"], s["id"] > 1))
                    else:
                        s["to"] = True
                elif s["pend"]:
                    s["id"] += 2
                    s["prop"], s["pend"] = True, False
                    msgs.append((c[1], s["id"], True))
                ops.append("rcycle " + "ab"[c[1]])
            else:
                mi = c[1]
                if mi >= len(msgs):
                    return None
                sender, mid, conf = msgs[mi]
                r = 1 - sender
                s = st[r]
                if mid > s["id"]:
                    s["to"] = False
                    s["pend"] = True
                    if conf and s["prop"]:
                        s["prop"] = False
                ops.append("rdeliver m%d %s" % (mi, "ab"[r]))
            ops.append("probe")
        return ops

    def rec(prefix, remaining):
        if remaining == 0:
            yield prefix
            return
        for c in (("cycle", 0), ("cycle", 1)):
            yield from rec(prefix + [c], remaining - 1)
        for mi in range(0, 6):
            yield from rec(prefix + [("deliver", mi)], remaining - 1)

    n = 0
    for seq in rec([], depth):
        ops = run(seq)
        if ops is None:
            continue
        n += 1
        yield Script("%s-%d-%d" % (name_prefix, depth, n), ops, {"suite": "rot"})


def random_schedule(rng, steps, name, reliable_tail=True):
    ops = ["rnew %s" % rng.choice(["chacha", "aes128", "aes256"]), "probe"]
    nmsgs = 1          # m0 exists; we learn about further messages only at run time, so deliver "recent" ones by guess:
    # conservative: track an upper bound and only reference messages that certainly exist (one per cycle pair at most)
    sent = [(0,)]
    cyc = 0
    for _ in range(steps):
        k = rng.below(100)
        if k < 45:
            ops.append("rcycle " + rng.choice("ab"))
            cyc += 1
        else:
            # deliver one of the messages that exist for sure: m0 always; later ones are referenced via 'latest' ops below
            ops.append("rdeliver-latest %s %d" % (rng.choice("ab"), rng.choice([0, 0, 0, 1, 2, 5])))
        ops.append("probe")
    if reliable_tail:
        ops.append("mark")
        # reliable phase: only messages sent from now on are delivered (what was lost before stays lost)
        for _ in range(10):
            for s in "ab":
                ops.append("rcycle " + s)
                ops.append("rdeliver-fresh %s" % ("b" if s == "a" else "a"))
                ops.append("probe")
        ops.append("expect-advance")
    return Script(name, ops, {"suite": "rot"})


def gen(tier, rng):
    # "fresh payload is always decryptable by the peer": a datagram that fails authentication (a late rotation message hitting a slot that holds
    # another key by now, an altered datagram) must not move the replay window of the key in that slot
    from .. import coregen as _coregen
    for a in _coregen.ALGOS:
        yield _coregen.poison_script(rng.fork("poison" + a), a, "poison-" + a)
    thorough = tier == "thorough"
    # node level: rotation as PeerCrypto::every_second drives it (cycle every 120 housekeeping calls, re-sends of unconfirmed proposals), with
    # everything in flight lost around one rotation second: the key change is only postponed, both sealing keys are replaced afterwards
    r = rng.fork("node")
    yield nodegen.long_session_script(r, "node-rotation-0", 740, drop_at=(120, 121), replay_age=(2,), expect_from=360)
    if thorough:
        for i in range(3):
            d = 120 * r.range(1, 4)
            yield nodegen.long_session_script(r, "node-rotation-%d" % (i + 1), d + 620, drop_at=(d, d + 1), replay_age=(2,), expect_from=d + 240)
    maxd = 6 if thorough else 4
    for d in range(1, maxd + 1):
        for s in exhaustive(d, "rot-exh"):
            if d >= 5 and not rng.chance(1, 4 if thorough else 8):
                continue
            yield s
    for i in range(400 if thorough else 60):
        yield random_schedule(rng, rng.range(20, 400 if thorough else 120), "rot-rand-%d" % i)

obs_class, nontrivial_key = _nodecommon.with_node(obs_class, nontrivial_key)
