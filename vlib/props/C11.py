"""C11 - Routing follows the most specific live claim (table level; node-level drop/broadcast choice: see C10/C13 node suites)."""
from ..core import Script
from .. import tablegen

from . import _nodecommon
from .. import nodegen

ID = "C11"
SUITES = ["range", "table", "node"]
LEAN_MODULES = ["VpnCloud.Proofs.C11", "VpnCloud.Proofs.C11Node", "VpnCloud.Proofs.TableRefine", "VpnCloud.Proofs.GuardsUsed", "VpnCloud.Proofs.C12More"]
THEOREMS = ["VpnCloud.Proofs.C11." + n for n in ("matches_iff_prefix", "no_u8_overflow", "lookup_spec", "lookup_most_specific", "cache_lifetime")] + [
            "VpnCloud.Proofs.C11Node.unknown_dest_dropped", "VpnCloud.Proofs.C11Node.unknown_dest_flooded"]
THEOREMS = THEOREMS + ["VpnCloud.Proofs.TableRefine." + n for n in ('table_refines', 'table_refines_abs', 'lookup_longest_live_prefix', 'live_after_sweep', 'cache_bounded', 'expired_claim_still_routes', 'expired_cache_still_used')]
THEOREMS = THEOREMS + ["VpnCloud.Proofs.GuardsUsed." + n for n in ('cacheLive_boundary', 'claimLive_boundary')]
THEOREMS = THEOREMS + ["VpnCloud.Proofs.C12More." + n for n in ('lookup_none_iff', 'router_drop_counts', 'flood_not_counted', 'unparseable_ignored')]
BATCH = 200
SEARCH_BUDGET_S = 300
RULE = ("suite range: `match base/prefix addr` over the 8-bit universe (exhaustive in thorough), a 16-bit universe and random "
        "0..16-byte addresses with prefix 0..255 incl. single-bit near misses at the prefix boundary; suite table: operation "
        "sequences over {announce, disconnect, lookup, learn, sweep, advance time by 0/1/timeout-1/timeout/timeout+1} on 3 peers x 8 "
        "nested/overlapping ranges, short (1..6 ops) and long (20..300); distinct non-trivial = distinct (op kind, result class, "
        "#claims, #cache entries) combinations with a non-empty table or a matching decision")
EXPECTED_CLASSES = ["match:true", "match:false", "lookup:peer", "lookup:none", "announce:ok", "disconnect:ok", "sweep:ok", "learn:ok"]
TRUSTED_BASE = ["HashMap / Vec / SmallVec::swap_remove behave as the association-list / list model says (exercised by the correspondence)"]
ASSUMPTIONS = ["table theorems are stated for now > 0 (a timeout of 0 marks an entry as expired); bytes < 256"]
EXPLANATION = ("matches_iff_prefix: Range::matches (xor / leading_zeros loop with u8 accumulation) = bit-by-bit prefix reference for "
               "all address lengths and prefix lengths; lookup theorems: uncached lookups return a peer whose claim is a longest "
               "matching one. The Spec relations lookupOk/announceOk/... are evaluated on the implementation's own before/after dumps.")
LEVEL_TEXT = EXPLANATION
LEVEL_NOTE = "Trusted: Lean kernel; model fidelity via correspondence; std collections. Node-level mode flags are covered by node suites."
TECHNIQUE = "Lean 4 proof (induction over byte lists / claim lists) + differential correspondence + one-step Spec relations on impl dumps"
DESIGN_REF = "DESIGN.md section 5, C11"


def obs_class(op, obs):
    k = op.split(" ", 1)[0]
    r = obs.split(" ", 1)[0]
    if k == "lookup":
        r = "none" if r == "none" else ("peer" if r.startswith("p") else r)
    return k + ":" + r


def nontrivial_key(op, obs):
    k = op.split(" ", 1)[0]
    if k == "match":
        t = op.split(" ")
        plen = int(t[1].split("/")[1])
        n = len(t[2]) // 2 if t[2] != "-" else 0
        return ("match", n, min(plen, 8 * n + 1) // 4, obs)
    if " | " in obs:
        res, dump = obs.split(" | ", 1)
        c, h = dump.split(" ")
        nc = 0 if c == "claims=-" else c.count(",") + 1
        nh = 0 if h == "cache=-" else h.count(",") + 1
        if nc == 0 and nh == 0:
            return None
        return (k, res if not res.startswith("p") else "p", nc, nh)
    return None


def classify(script, result):
    return None


def _gen_base(tier, rng):
    ops = tablegen.range_ops(tier, rng.fork("range"))
    for i in range(0, len(ops), 100):
        yield Script("range-%d" % (i // 100), ops[i:i + 100], {"suite": "range"})
    for s in tablegen.table_scripts(tier, rng.fork("table")):
        yield s


def gen(tier, rng):
    for x in _gen_base(tier, rng):
        yield x
    thorough = tier == "thorough"
    # node level: router drops (and counts) what no live claim contains, switch and hub send it to all peers
    r = rng.fork("node")
    yield nodegen.c10_script(r, "node-router", 3, "router", "tun", 60 if thorough else 25)
    yield nodegen.c10_script(r, "node-switch", 3, "switch", "tun", 60 if thorough else 25)
    # the default mode: a router on tun devices (claims only, nothing is learned), a switch on tap devices
    yield nodegen.c10_script(r, "node-normal-tun", 3, "normal", "tun", 40 if thorough else 20)
    yield nodegen.c10_script(r, "node-normal-tap", 3, "normal", "tap", 40 if thorough else 20)
    yield nodegen.c10_script(r, "node-hub", 3, "hub", "tap", 60 if thorough else 25)
    # "for IPv4, IPv6 and MAC ranges alike": claims of every family in the nodes' configuration, nested and overlapping
    yield nodegen.families_script(r, "node-families", 8 if thorough else 4)
    yield nodegen.announce_script(r, "announce-withdraw", 12)      # claims grow, shrink and are withdrawn altogether by later announcements
    for sw in (False, True):
        yield nodegen.nested_claims_script(r, "nested-claims-%d" % sw, sw)
    yield nodegen.mac_claims_script(r, "node-mac-claims", 6 if thorough else 3)
    # "a cached decision is reused no longer than the switch timeout and never beyond the life of the claim": the two timeouts differ
    yield nodegen.c10_script(r, "node-router-st7", 3, "router", "tun", 50 if thorough else 30, st=7, pt=300)
    yield nodegen.c10_script(r, "node-switch-st5-pt40", 3, "switch", "tap", 50 if thorough else 30, st=5, pt=40)
    yield nodegen.switch_timeout_script(r, "node-switch-timeout", pt=20, st=10)

obs_class, nontrivial_key = _nodecommon.with_node(obs_class, nontrivial_key)
