"""C18 - Generated and password-derived keys are always usable and deterministic."""
from ..core import Script, hx

ID = "C18"
SUITES = ["b62", "config", "init"]
LEAN_MODULES = ["VpnCloud.Proofs.C18", "VpnCloud.Proofs.C18More"]
THEOREMS = ["VpnCloud.Proofs.C18." + n for n in (
    "toBase62_total", "toBase62_value", "fromBase62_value", "fromBase62_error", "from_to",
    "generated_key_accepted", "generated_pair_usable")]
THEOREMS = THEOREMS + ["VpnCloud.Proofs.C18More." + n for n in ('same_password_same_keys', 'different_password_different_keys', 'different_password_no_trust', 'private_yields_public', 'generated_private_yields_public', 'printed_pair_consistent', 'random_pair_consistent', 'mismatched_pair_rejected')]
BATCH = 100
SEARCH_BUDGET_S = 300
RULE = ("suite b62: text codec on all byte strings of length <= 2 and random strings up to 64 bytes (b62enc), decoding of random texts "
        "incl. non-alphanumeric and non-ASCII characters (b62dec); seedcheck on 32-byte seeds with every pattern of 0..4 leading zero bytes "
        "and random seeds; pwcheck on a password dictionary incl. empty, unicode and 1 KiB passwords (each derived twice, compared with the "
        "key a node derives from the same password); distinct non-trivial = distinct (op, length class, leading-zero count of seed / public key)")
EXPECTED_CLASSES = ["b62enc:text", "b62dec:ok", "b62dec:err", "seedcheck:usable", "pwcheck:usable"]
TRUSTED_BASE = ["Ed25519 key derivation and PBKDF2 (ring) are parameters of the model: the public key of a seed is observed from the implementation"]
ASSUMPTIONS = ["bytes < 256; PBKDF2/Ed25519 are deterministic functions returning 32 bytes"]
EXPLANATION = ("from_to / generated_key_accepted / generated_pair_usable: for every 32-byte seed and public key, printing with to_base62 and "
               "parsing with the left-padding key parser returns the same bytes; to_base62 never panics; value preservation both ways.")
LEVEL_TEXT = EXPLANATION
LEVEL_NOTE = "Trusted: Lean kernel; model fidelity via correspondence; ring (PBKDF2, Ed25519) as parameters."
TECHNIQUE = "Lean 4 proof (value preservation of the schoolbook base conversion loops, canonical forms) + differential correspondence"
DESIGN_REF = "DESIGN.md section 5, C18"


def obs_class(op, obs):
    k = op.split(" ", 1)[0]
    if k == "b62enc":
        return "b62enc:" + ("panic" if obs == "panic" else "text")
    if k in ("seedcheck", "pwcheck"):
        return k + ":" + ("usable" if "pair=ok crypto=ok" in obs and "privparse=ok" in obs else "unusable")
    return k + ":" + obs.split(":", 1)[0]


def _lz(h):
    n = 0
    while h.startswith("00"):
        n += 1
        h = h[2:]
    return n


def nontrivial_key(op, obs):
    t = op.split(" ")
    k = t[0]
    if k in ("seedcheck", "pwcheck"):
        kp = [f for f in obs.split(" ") if f.startswith("keypub=")]
        return (k, _lz(t[1]) if k == "seedcheck" else -1, _lz(kp[0][7:]) if kp else -1, len(t[1]) // 64)
    if k.startswith("cfg"):
        return (k, len(t), "trusted_keys" in op, "private_key" in op)
    if len(t) < 2 or t[1] == "-":
        return None
    return (k, min(len(t[1]) // 2, 40), obs_class(op, obs), _lz(t[1]))


def classify(script, result):
    return None


PASSWORDS = ["password190", "", "test", "test123", "password", "secret7698", "a", "äöüß", "你好世界", "\U0001f511key",
             "x" * 1024, " ", "pw with spaces", "0", "null\u0000byte"]


def gen(tier, rng):
    thorough = tier == "thorough"
    # "accepted when configured as private, public or trusted key": the key options through the configuration merge (file + command line;
    # trusted keys accumulate, the others take the command-line value) — the same documented rules as C20, for the key options
    from . import C20 as _c20
    kops = ["cfgdefault"]
    keyopts = ["password", "private_key", "public_key", "trusted_keys"]
    for _ in range(400 if thorough else 60):
        fo = [o for o in keyopts if rng.chance(1, 2)]
        ao = _c20.fix_arg_opts(rng, [o for o in keyopts if rng.chance(1, 2)])
        kops.append("%s %s %s" % (rng.choice(["cfgmerge", "cfgrt"]), _c20.file_assign(rng, fo), _c20.arg_assign(rng, ao)))
    yield Script("key-options", kops, {"suite": "config"})
    # "accepted when configured as … trusted key": at every position of a list of several trusted keys (parties built through the real configuration path)
    from .. import initgen
    yield initgen.cfg_script(rng.fork("cfg"), "trusted-key-lists")
    ops = ["b62enc -"]
    for a in range(256):
        ops.append("b62enc %02x" % a)
    for a in range(256):
        for b in range(256):
            ops.append("b62enc %02x%02x" % (a, b))
    for _ in range(20000 if thorough else 1500):
        n = rng.range(0, 64)
        b = bytearray(rng.bytes(n))
        for i in range(min(n, rng.choice([0, 0, 0, 1, 2, 3, 4]))):
            b[i] = 0
        ops.append("b62enc " + hx(bytes(b)))
    alnum = "0123456789ABCDEFGHIJKLMNOPQRSTUVWXYZabcdefghijklmnopqrstuvwxyz"
    bad = "-_+/= .:@äß世~[`{"
    for _ in range(20000 if thorough else 2000):
        n = rng.range(0, 90)
        s = "".join(rng.choice(alnum) for _ in range(n))
        if rng.chance(1, 4) and n:
            i = rng.below(n)
            s = s[:i] + rng.choice(bad) + s[i + 1:]
        if rng.chance(1, 5):
            s = "0" * rng.range(1, 3) + s
        ops.append("b62dec " + hx(s.encode()))
        if rng.chance(1, 3):
            ops.append("keypub " + hx(s.encode()))
    for i in range(0, len(ops), 500):
        yield Script("codec-%d" % (i // 500), ops[i:i + 500], {"suite": "b62"})
    ops = []
    for z in range(0, 5):
        for _ in range(2000 if thorough else 25):
            ops.append("seedcheck " + hx(bytes(z) + bytes([rng.range(1, 255)]) + rng.bytes(31 - z)))
    ops.append("seedcheck " + "00" * 32)
    for _ in range(100000 if thorough else 400):
        ops.append("seedcheck " + hx(rng.bytes(32)))
    pws = list(PASSWORDS)
    for _ in range(3000 if thorough else 150):
        pws.append("pw%d" % rng.below(10 ** 6))
    for pw in pws:
        ops.append("pwcheck " + hx(pw.encode()))
    for i in range(0, len(ops), 50):
        yield Script("keys-%d" % (i // 50), ops[i:i + 50], {"suite": "b62"})
