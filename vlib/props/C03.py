"""C03 (crypto core level)."""
from ..core import Script
from .. import coregen
from .. import nodegen
from . import _nodecommon

ID = "C03"
SUITES = ["core", "node"]
LEAN_MODULES = ["VpnCloud.Proofs.C03", "VpnCloud.Proofs.C04Session", "VpnCloud.Proofs.GuardsUsed"]
THEOREMS = ["VpnCloud.Proofs.C03." + n for n in ("window_refines", "decrypt_authentic", "everySecond_slots", "threshold_mono", "dies_in_two_ticks", "newest_always_accepted", "any_order_inside_window")] + [
    "VpnCloud.Proofs.C04Session." + n for n in ("session_window_refines", "session_history_admissible", "session_accept_iff", "per_slot_independent", "tick_ages_every_slot",
        "rotate_resets_slot", "rotate_resets_history", "overwritten_key_rejected_forever", "overwritten_key_rejected_forever_session", "dies_in_two_ticks_session")]
THEOREMS = THEOREMS + ["VpnCloud.Proofs.GuardsUsed." + n for n in ('nonceTooOld_boundary', 'seenAdvances_boundary')]
BATCH = 100
SEARCH_BUDGET_S = 300
EXPECTED_CLASSES = ["seal:d", "deliver:ok", "deliver:err", "tick:ok"]
TRUSTED_BASE = ["AEAD (ring) idealised: open succeeds iff key, nonce, ciphertext and tag are exactly those of a seal (tested on every mutated datagram by the correspondence)",
                "random start values of send counters are inputs of the model (observed through a read-only hook)"]
ASSUMPTIONS = ["AEAD idealisation I2 (authenticity) and L1 (open . seal = id); fewer than 2^95 - 2^48 seals per key"]


def obs_class(op, obs):
    k = op.split(" ", 1)[0]
    if k == "seal":
        return "seal:" + obs[:1]
    if k == "deliver":
        return "deliver:" + obs.split(":", 1)[0]
    return k + ":" + ("ok" if obs not in ("panic", "bad-op") else obs)


def nontrivial_key(op, obs):
    t = op.split(" ")
    if t[0] == "deliver":
        mut = t[3].split("=")[0] if len(t) > 3 else "none"
        return ("deliver", mut, obs.split(":", 1)[0], len(obs) // 32)
    if t[0] == "seal":
        return ("seal", len(t[2]) // 2 if t[2] != "-" else 0)
    if t[0] == "inc":
        return ("inc", t[1].count("ff"), obs.count("00"))
    return None


def classify(script, result):
    return None


def gen(tier, rng):
    # node level: the window is driven by PeerCrypto::every_second / GenericCloud::crypto_housekeep once per second for every peer, also on the
    # seconds in which a rotation message is sent; every payload datagram is replayed after the receiver has ticked twice and three times
    r = rng.fork("node")
    yield nodegen.long_session_script(r, "node-window-0", 260, drop_at=(), replay_age=(2, 3))
    yield nodegen.long_session_script(r, "node-window-stale-attempt", 90, drop_at=(), replay_age=(2, 3), stale_ping_at=(20, 70))
    yield nodegen.star_session_script(r, "node-window-star", 250)        # two sessions per node: every session ticks in every round
    if tier == "thorough":
        for i in range(3):
            yield nodegen.long_session_script(r, "node-window-%d" % (i + 1), 500, drop_at=(r.range(100, 400),), replay_age=(2, r.range(3, 6)))
    for x in coregen.core_scripts(tier, rng, ID):
        yield x
RULE = ("suite core: every interleaving of {seal next, deliver any earlier datagram (again), tick} up to depth 6 (quick) / 9 (thorough) over up to 3/5 "
        "datagrams, random histories up to 80/400 steps with key rotations and mutations, three ciphers; the reference monitor computes the "
        "threshold from the recorded history only; distinct non-trivial = distinct (mutation kind, outcome, length class)")
EXPLANATION = "window_refines: for every history the model of decrypt accepts an authentic datagram iff its nonce >= threshold(history); dies_in_two_ticks; newest_always_accepted"
LEVEL_TEXT = EXPLANATION
LEVEL_NOTE = "the only external assumption is authenticity of the AEAD (C02)"
TECHNIQUE = "Lean 4 proof by induction over histories (invariant min/nextMin/seen = thresholds of the history) + differential correspondence"
DESIGN_REF = "DESIGN.md section 5, C03"

obs_class, nontrivial_key = _nodecommon.with_node(obs_class, nontrivial_key)
