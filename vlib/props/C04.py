"""C04 (crypto core level)."""
from ..core import Script
from .. import coregen

ID = "C04"
SUITES = ["core", "init", "rot"]
LEAN_MODULES = ["VpnCloud.Proofs.C04", "VpnCloud.Proofs.C04Session", "VpnCloud.Proofs.C07Keys"]
THEOREMS = ["VpnCloud.Proofs.C04." + n for n in ("increment_val", "increment_wf", "encrypt_spec", "send_strictly_increasing", "seal_log_nodup", "stays_in_half", "halves_disjoint", "reconstruct_iff", "beyond_56_bits_rejected", "rotate_fresh")] + [
    "VpnCloud.Proofs.C04Session." + n for n in ("session_seal_log_nodup", "session_halves_disjoint", "open_keeps_send", "send_monotone_between_rotations", "counter_never_wraps")] + ["VpnCloud.Rot.installed_keys_fresh", "VpnCloud.Rot.different_exchanges_different_keys"]
BATCH = 100
SEARCH_BUDGET_S = 300
EXPECTED_CLASSES = ["seal:d", "deliver:ok", "deliver:err", "tick:ok", "rcycle:ok"]
TRUSTED_BASE = ["AEAD (ring) idealised: open succeeds iff key, nonce, ciphertext and tag are exactly those of a seal (tested on every mutated datagram by the correspondence)",
                "random start values of send counters are inputs of the model (observed through a read-only hook)"]
ASSUMPTIONS = ["AEAD idealisation I2 (authenticity) and L1 (open . seal = id); fewer than 2^95 - 2^48 seals per key"]


def obs_class(op, obs):
    k = op.split(" ", 1)[0]
    if k == "seal":
        return "seal:" + obs[:1]
    if k == "deliver":
        return "deliver:" + obs.split(":", 1)[0]
    return k + ":" + ("ok" if obs not in ("panic", "bad-op") else obs)


def nontrivial_key(op, obs):
    t = op.split(" ")
    if t[0] == "deliver":
        mut = t[3].split("=")[0] if len(t) > 3 else "none"
        return ("deliver", mut, obs.split(":", 1)[0], len(obs) // 32)
    if t[0] == "seal":
        return ("seal", len(t[2]) // 2 if t[2] != "-" else 0)
    if t[0] == "inc":
        return ("inc", t[1].count("ff"), obs.count("00"))
    return None


def classify(script, result):
    return None


def gen(tier, rng):
    for x in coregen.core_scripts(tier, rng, ID):
        yield x
    # "the two ends of a connection draw from disjoint halves": also when both handshake objects drew the same salt
    from .. import initgen
    yield initgen.equal_salt_script(rng.fork("salt"), "equal-salt")
    # "each rotated-in key starts a new sequence at a random value": the rotated-in keys must then be separate keys.  Real RotationState objects over
    # many cycles; the monitor of the rot suite numbers the installed key material by its bytes and fails when two exchanges share one key
    from . import C07
    for i in range(6 if tier == "thorough" else 2):
        yield C07.random_schedule(rng.fork("rot%d" % i), 60 + 40 * i, "rot-keys-%d" % i)
RULE = ("suite core: Nonce::increment on all byte-carry boundary patterns (k trailing ff bytes x boundary byte x fill) and random values; send counters "
        "forced to and around every byte-carry boundary, 2^48, 2^56 and 2^64 in both halves with seal + delivery; seal logs of both ends over random "
        "histories with rotations checked for pairwise distinct (key, nonce), strict increase and half membership; "
        "distinct non-trivial = distinct (op kind, carry pattern / mutation, outcome)")
EXPLANATION = "increment_val (carry chain = +1 mod 2^96), send_strictly_increasing, stays_in_half, reconstruct_iff (counter beyond 56 bits is undecryptable), seal_log_unique"
LEVEL_TEXT = EXPLANATION
LEVEL_NOTE = "'starts at an unpredictable value' is a property of the OS RNG and not provable; the model treats the start as arbitrary (< 2^48)"
TECHNIQUE = "Lean 4 proof (carry-chain arithmetic, monotone counters, disjoint halves) + differential correspondence incl. forced boundary counters"
DESIGN_REF = "DESIGN.md section 5, C04"
