"""C16 - Wire codecs round-trip, skip unknown parts, and are total (NodeInfo, RotationMessage, Range; the handshake message codec is part of the init suite)."""
from ..core import Script, hx

from . import _nodecommon
from .. import nodegen

ID = "C16"
SUITES = ["codec", "node", "init"]
LEAN_MODULES = ["VpnCloud.Proofs.C16", "VpnCloud.Proofs.C16Init", "VpnCloud.Proofs.C16More"]
THEOREMS = ["VpnCloud.Proofs.C16." + n for n in ("range_roundtrip", "rotmsg_roundtrip", "partsOf_flatten", "nodeinfo_roundtrip", "unknown_parts_skipped", "decodeParts_fuel", "readU16_lt")] + ["VpnCloud.Proofs.C16Init.initmsg_roundtrip"]
THEOREMS = THEOREMS + ["VpnCloud.Proofs.C16More." + n for n in ('readRotMsg_none_iff', 'readRotMsg_isSome_iff', 'rotmsg_trailing_ignored', 'readRotMsg_bounded', 'readFields_fuel', 'init_decode_total', 'unknown_init_parts_skipped', 'unknown_part_changes_signed_region', 'decode_alloc_bounded', 'readFields_bounded')]
BATCH = 100
SEARCH_BUDGET_S = 300
RULE = ("suite codec: generated node information messages (0..20 peers, 0..9 addresses per family, claims of every address length 0..16 and "
        "prefix 0..255, optional fields present/absent) through encode+decode (ni-rt), with an unknown part inserted at every part boundary "
        "(ni-unk); decoders on every truncation, on single-byte substitutions in tag/length positions of valid encodings and on random byte "
        "strings up to 2 KiB (ni-dec, rm-dec, range-dec); distinct non-trivial = distinct (op, #peers, #claims, outcome class, length class)")
EXPECTED_CLASSES = ["ni-rt:ok", "ni-unk:ok", "ni-dec:ok", "ni-dec:err", "rm-dec:ok", "rm-dec:err", "range-dec:ok", "range-dec:err"]
TRUSTED_BASE = ["std::io::Read / Take / Cursor and byteorder behave as the remaining-bytes model says (exercised by the correspondence)"]
ASSUMPTIONS = ["round trip is stated for messages whose parts fit their 16-bit length fields (Spec.C16.WF; create_node_info's at most 20 peers satisfy it)"]
EXPLANATION = ("nodeinfo_roundtrip: decode (encode x) = normalise x for every well-formed x; unknown_parts_skipped; decoders are total functions "
               "returning ok/err on every byte string (structural recursion with fuel = remaining length, no panic branch); rotmsg/range round trips.")
LEVEL_TEXT = EXPLANATION
LEVEL_NOTE = "Trusted: Lean kernel; model fidelity via correspondence (Rust-encoded bytes decoded by the model and vice versa)."
TECHNIQUE = "Lean 4 proof (round trip by structural induction over the message, totality by construction) + differential correspondence incl. malformed streams"
DESIGN_REF = "DESIGN.md section 5, C16"


def obs_class(op, obs):
    k = op.split(" ", 1)[0]
    if k in ("ni-rt", "ni-unk"):
        return k + ":" + ("ok" if "dec=ok:" in obs else "err" if "dec=err" in obs else obs[:8])
    return k + ":" + obs.split(":", 1)[0][:6]


def nontrivial_key(op, obs):
    t = op.split(" ")
    k = t[0]
    if k in ("ni-rt", "ni-unk"):
        f = dict(x.split("=", 1) for x in t if "=" in x)
        np_ = 0 if f.get("peers", "-") == "-" else f["peers"].count(";") + 1
        nc = 0 if f.get("claims", "-") == "-" else f["claims"].count(",") + 1
        na = 0 if f.get("addrs", "-") == "-" else f["addrs"].count(",") + 1
        return (k, np_, min(nc, 6), min(na, 10), f.get("timeout") == "-", obs_class(op, obs))
    return (k, min(len(t[1]) // 2, 64) // 4, obs_class(op, obs))


def classify(script, result):
    return None


def rand_sock(rng):
    if rng.chance(1, 2):
        return "4:%s:%d" % (rng.bytes(4).hex(), rng.below(65536))
    return "6:%s:%d" % (rng.bytes(16).hex(), rng.below(65536))


def rand_socks(rng, maxn):
    n4 = rng.below(maxn + 1)
    n6 = rng.below(maxn + 1)
    l = ["4:%s:%d" % (rng.bytes(4).hex(), rng.below(65536)) for _ in range(n4)] + \
        ["6:%s:%d" % (rng.bytes(16).hex(), rng.below(65536)) for _ in range(n6)]
    rng.shuffle(l)
    return l


def rand_range(rng):
    n = rng.choice([4, 6, 8, 16, rng.below(17)])
    return "%s/%d" % (hx(rng.bytes(n)), rng.choice([rng.below(256), rng.below(8 * n + 1), 0, 255]))


def rand_ni(rng, maxpeers=20, maxaddr=9):
    npeers = rng.choice([0, 1, 2, 3, rng.below(maxpeers + 1), maxpeers])
    peers = []
    for _ in range(npeers):
        nid = rng.bytes(16).hex() if rng.chance(4, 5) else "-"
        socks = rand_socks(rng, rng.choice([0, 1, 2, 3, 7, 8, maxaddr]))
        peers.append("%s@%s" % (nid, ",".join(socks) if socks else "-"))
    claims = [rand_range(rng) for _ in range(rng.choice([0, 1, 2, 4, 17, rng.below(30)]))]
    addrs = rand_socks(rng, rng.choice([0, 1, 3, 7, 8, maxaddr]))
    return ["id=" + rng.bytes(16).hex(), "peers=" + (";".join(peers) if peers else "-"),
            "claims=" + (",".join(claims) if claims else "-"),
            "timeout=" + (str(rng.choice([0, 1, 300, 65535, rng.below(65536)])) if rng.chance(3, 4) else "-"),
            "addrs=" + (",".join(addrs) if addrs else "-")]


def py_encode(fields):
    """reference encoder used only to build malformed inputs (truncations / substitutions of valid encodings)"""
    f = dict(x.split("=", 1) for x in fields)

    def socks(s):
        return [] if s == "-" else s.split(",")

    def enc_list(l, flag):
        v4 = [x for x in l if x.startswith("4:")][:7]
        v6 = [x for x in l if x.startswith("6:")][:7]
        body = b""
        for x in v6 + v4:
            _, ip, port = x.split(":")
            body += bytes.fromhex(ip) + int(port).to_bytes(2, "big")
        return bytes([len(v6) * 8 + len(v4) + flag]) + body

    def part(tag, body):
        return bytes([tag]) + (len(body) & 0xffff).to_bytes(2, "big") + body

    peers = b""
    if f["peers"] != "-":
        for p in f["peers"].split(";"):
            nid, a = p.split("@")
            e = enc_list(socks(a), 0x80 if nid != "-" else 0)
            peers += e[:1] + (bytes.fromhex(nid) if nid != "-" else b"") + e[1:]
    claims = b""
    if f["claims"] != "-":
        for r in f["claims"].split(","):
            b, p = r.split("/")
            bb = bytes.fromhex(b) if b != "-" else b""
            claims += bytes([len(bb)]) + bb + bytes([int(p)])
    out = part(4, bytes.fromhex(f["id"])) + part(1, peers) + part(2, claims)
    if f["timeout"] != "-":
        out += part(3, int(f["timeout"]).to_bytes(2, "big"))
    out += part(5, enc_list(socks(f["addrs"]), 0)) + b"\x00"
    return out


def boundary_ni_script(rng, name):
    """node information at the format's limits: exactly 6 / 7 / 8 addresses per family in the own-address list and in peer entries"""
    ops = []

    def socks(n4, n6):
        l = ["4:%s:%d" % (rng.bytes(4).hex(), rng.below(65536)) for _ in range(n4)] + ["6:%s:%d" % (rng.bytes(16).hex(), rng.below(65536)) for _ in range(n6)]
        rng.shuffle(l)
        return l
    for (a4, a6) in ((7, 0), (0, 7), (7, 7), (8, 8), (6, 7), (8, 0), (0, 8), (1, 7), (7, 1), (6, 6)):
        for (p4, p6) in ((7, 7), (a6, a4), (0, 0)):
            peers = ["%s@%s" % (rng.bytes(16).hex(), ",".join(socks(p4, p6)) or "-"), "-@%s" % (",".join(socks(a4, a6)) or "-")]
            ops.append("ni-rt id=%s peers=%s claims=%s timeout=%d addrs=%s" % (rng.bytes(16).hex(), ";".join(peers), "0a000000/8", rng.choice([300, 60]),
                                                                             ",".join(socks(a4, a6)) or "-"))
    return Script(name, ops, {"suite": "codec"})


def _gen_base(tier, rng):
    thorough = tier == "thorough"
    yield boundary_ni_script(rng.fork("boundary"), "ni-boundary")
    ops = []
    for _ in range(4000 if thorough else 300):
        ni = rand_ni(rng)
        ops.append("ni-rt " + " ".join(ni))
    # unknown parts at every position
    for _ in range(600 if thorough else 60):
        ni = rand_ni(rng, 4, 3)
        for pos in range(7):
            tag = rng.choice([6, 7, 9, 100, 255, 200])
            body = rng.bytes(rng.choice([0, 1, 2, 17, 300]))
            ops.append("ni-unk %d %d %s %s" % (pos, tag, hx(body), " ".join(ni)))
    # malformed: truncations and substitutions of valid encodings
    for _ in range(150 if thorough else 12):
        enc = py_encode(rand_ni(rng, 3, 2))
        for l in range(len(enc)):
            ops.append("ni-dec " + hx(enc[:l]))
        # tag / length positions: walk the TLV structure
        pos = 0
        tl = []
        while pos < len(enc) and enc[pos] != 0:
            tl += [pos, pos + 1, pos + 2]
            pos += 3 + ((enc[pos + 1] << 8) | enc[pos + 2])
        for p in tl:
            for v in ([0, 1, 2, 3, 4, 5, 6, 255, enc[p] ^ 1, enc[p] + 1 & 255] if not thorough else range(256)):
                b = bytearray(enc)
                b[p] = v
                ops.append("ni-dec " + hx(bytes(b)))
        for _ in range(40):
            b = bytearray(enc)
            b[rng.below(len(b))] = rng.below(256)
            ops.append("ni-dec " + hx(bytes(b)))
    for _ in range(20000 if thorough else 1500):
        n = rng.choice([rng.below(40), rng.below(300), rng.below(2049)])
        b = bytearray(rng.bytes(n))
        if n > 3 and rng.chance(1, 2):
            b[0] = rng.choice([1, 2, 3, 4, 5])
            b[1] = 0
        ops.append("ni-dec " + hx(bytes(b)))
    # ranges and rotation messages
    for _ in range(5000 if thorough else 500):
        ops.append("range-enc " + rand_range(rng))
        n = rng.below(22)
        b = bytearray(rng.bytes(n))
        if n and rng.chance(2, 3):
            b[0] = rng.below(19)
        ops.append("range-dec " + hx(bytes(b)))
        kl = rng.choice([0, 1, 32, 32, 32, 96, 255])
        cl = rng.choice([0, 0, 32, 32, 1, 255])
        m = rng.bytes(8) + bytes([kl]) + rng.bytes(kl) + bytes([cl]) + rng.bytes(cl) + rng.bytes(rng.choice([0, 0, 5]))
        ops.append("rm-dec " + hx(m[: rng.choice([len(m), len(m), rng.below(len(m) + 1)])]))
    rng.shuffle(ops)
    for i in range(0, len(ops), 100):
        yield Script("codec-%d" % (i // 100), ops[i:i + 100], {"suite": "codec"})


def gen(tier, rng):
    for x in _gen_base(tier, rng):
        yield x
    # the handshake message decoder on mutated / truncated / length-corrupted genuine datagrams and on forged fields behind a genuine key header (node level, under catch_unwind)
    yield nodegen.c08_script(rng.fork("node"), "node-handshake-decoder", tier == "thorough")
    # node information with arbitrary content (unknown parts, mixed address families, entries with and without node id) through the real receive path
    yield nodegen.announce_script(rng.fork("announce"), "node-announce", 120 if tier == "thorough" else 50)
    # the handshake decoder behind the signature check: unknown parts at every boundary, missing / repeated / permuted parts, odd field lengths
    from .. import initgen
    for s in initgen.signed_parts_scripts(rng.fork("signed"), tier == "thorough"):
        yield s


obs_class, nontrivial_key = _nodecommon.with_node(obs_class, nontrivial_key)
