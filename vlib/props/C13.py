"""C13 - Switch learning is per VLAN and expires; hub and router learn nothing (frame normalisation + table level; node level in the node suite)."""
from ..core import Script, hx
from .. import tablegen
from . import C11 as _c11

from . import _nodecommon
from .. import nodegen

ID = "C13"
SUITES = ["frame", "table", "node"]
LEAN_MODULES = ["VpnCloud.Proofs.C13", "VpnCloud.Proofs.C13Node", "VpnCloud.Proofs.TableRefine", "VpnCloud.Proofs.GuardsUsed", "VpnCloud.Proofs.C13More"]
THEOREMS = ["VpnCloud.Proofs.C13." + n for n in ("learn_spec", "learn_last_writer", "learn_expiry", "disconnect_forgets", "vlan_normalised", "vlan_normalised_model", "vlan_tag_injective", "tagged_ne_untagged", "learn_overrides")] + [
            "VpnCloud.Proofs.C13Node.no_learning_unless_flag", "VpnCloud.Proofs.C13Node.learning_records_source"]
THEOREMS = THEOREMS + ["VpnCloud.Proofs.TableRefine." + n for n in ('table_refines', 'learned_until', 'learned_is_a_map', 'announce_drop_flushes_learned')]
THEOREMS = THEOREMS + ["VpnCloud.Proofs.GuardsUsed." + n for n in ('cacheLive_boundary', 'learned_survives_until_timeout')]
THEOREMS = THEOREMS + ["VpnCloud.Proofs.C13More." + n for n in ('learned_then_unicast', 'relearn_moves', 'learn_irrelevant_for_others', 'vlan_isolated', 'untagged_isolated', 'vlan_same_unicast', 'priority_tag_directs_untagged', 'untagged_directs_priority_tag', 'unknown_in_vlan_flooded', 'known_elsewhere_flooded', 'disconnect_forgets_node', 'disconnect_then_flooded', 'learned_survives_tick', 'silent_expires_node', 'no_learning_any_datagram', 'hub_router_never_learn', 'hub_router_cache_backed')]
BATCH = 200
SEARCH_BUDGET_S = 300
RULE = ("suite frame: all 65536 tag-control values behind ethertype 81 00 (every value in both tiers), nested tags; suite table: learn / "
        "lookup / disconnect / sweep sequences over 3 MACs x VLAN-prefixed addresses with time steps 0, 1, timeout-1/0/+1; "
        "distinct non-trivial = distinct (op kind, result class, #claims, #cache entries) resp. distinct (VLAN id, priority nibble) classes")
EXPECTED_CLASSES = ["frame:ok", "learn:ok", "lookup:peer", "lookup:none", "sweep:ok", "disconnect:ok"]
TRUSTED_BASE = _c11.TRUSTED_BASE
ASSUMPTIONS = _c11.ASSUMPTIONS
EXPLANATION = ("vlan_normalised: for all tag-control values the dissected address pair depends only on the 12-bit VLAN id, id 0 yields the "
               "untagged addresses, different ids yield different addresses; learn_last_writer / learn_expiry / disconnect_forgets on the "
               "table model (learnOk, sweepOk, disconnectOk).")
LEVEL_TEXT = EXPLANATION
LEVEL_NOTE = _c11.LEVEL_NOTE
TECHNIQUE = "Lean 4 proof + differential correspondence + one-step Spec relations on impl dumps"
DESIGN_REF = "DESIGN.md section 5, C13"


def obs_class(op, obs):
    k = op.split(" ", 1)[0]
    if k == "frame":
        return "frame:" + obs.split(" ", 1)[0]
    return _c11.obs_class(op, obs)


def nontrivial_key(op, obs):
    t = op.split(" ")
    if t[0] == "frame":
        b = bytes.fromhex(t[1]) if t[1] != "-" else b""
        if len(b) >= 16 and b[12:14] == b"\x81\x00":
            return ("frame", b[14] >> 4, ((b[14] & 15) << 8 | b[15]) // 64, obs.split(" ", 1)[0])
        return None
    return _c11.nontrivial_key(op, obs)


def classify(script, result):
    return None


def learn_script(rng, n, name):
    ct = rng.choice([5, 10, 300])
    now = rng.range(1, 20)
    ops = ["tnew %d 300" % ct, "now %d" % now]
    macs = ["020000000001", "020000000002", "020000000003", "0001020000000001", "0067020000000001", "0fff020000000002"]
    for _ in range(n):
        k = rng.below(100)
        if k < 35:
            ops.append("learn %s p%d" % (rng.choice(macs), rng.range(1, 3)))
        elif k < 65:
            ops.append("lookup %s" % rng.choice(macs))
        elif k < 72:
            ops.append("disconnect p%d" % rng.range(1, 3))
        elif k < 80:
            ops.append("sweep")
        else:
            now += max(rng.choice([0, 1, ct - 1, ct, ct + 1]), 0)
            ops.append("now %d" % now)
            ops.append("sweep")
    return Script(name, ops, {"suite": "table"})


def _gen_base(tier, rng):
    thorough = tier == "thorough"
    ops = []
    for tci in range(65536):
        tail = rng.bytes(rng.choice([0, 2, 4]))
        ops.append("frame " + hx(bytes([2, 0, 0, 0, 0, 1 + tci % 3, 2, 0, 0, 0, 0, 1 + (tci >> 4) % 3, 0x81, 0x00, tci >> 8, tci & 0xff]) + tail))
    for _ in range(3000 if thorough else 300):   # nested tags
        t1, t2 = rng.below(65536), rng.below(65536)
        ops.append("frame " + hx(rng.bytes(12) + bytes([0x81, 0, t1 >> 8, t1 & 255, 0x81, 0, t2 >> 8, t2 & 255]) + rng.bytes(4)))
    for i in range(0, len(ops), 500):
        yield Script("tci-%d" % (i // 500), ops[i:i + 500], {"suite": "frame"})
    n = 0
    for length in range(1, 6):
        for _ in range(500 if thorough else 60):
            n += 1
            yield learn_script(rng, length, "learn-short-%d" % n)
    for _ in range(2000 if thorough else 100):
        n += 1
        yield learn_script(rng, rng.range(10, 300 if thorough else 60), "learn-long-%d" % n)


def gen(tier, rng):
    for x in _gen_base(tier, rng):
        yield x
    thorough = tier == "thorough"
    # node level: learning per VLAN in switch mode, none in hub / router mode, expiry and disconnect
    r = rng.fork("node")
    yield nodegen.c10_script(r, "node-switch", 3, "switch", "tap", 80 if thorough else 40)
    yield nodegen.c10_script(r, "node-hub", 3, "hub", "tap", 40 if thorough else 20)
    yield nodegen.c10_script(r, "node-normal-tun", 3, "normal", "tun", 40 if thorough else 20)      # the default mode on tun devices routes by claims only
    yield nodegen.c10_script(r, "node-normal-tap", 3, "normal", "tap", 40 if thorough else 20)
    yield nodegen.c10_script(r, "node-router-tap", 3, "router", "tap", 40 if thorough else 20)
    yield nodegen.switch_timeout_script(r, "node-switch-timeout", pt=20, st=10)
    yield nodegen.close_script(r, "node-close-switch", mode="switch", dev="tap")       # "or P disconnects": learned addresses of a peer that said goodbye

obs_class, nontrivial_key = _nodecommon.with_node(obs_class, nontrivial_key)
