"""C08 (node level)."""
from ..core import Script
from .. import nodegen
from ._nodecommon import *

ID = "C08"
LEAN_MODULES = ["VpnCloud.Proofs.C08", "VpnCloud.Proofs.C08Node", "VpnCloud.Proofs.C02More", "VpnCloud.Proofs.GuardsUsed", "VpnCloud.Proofs.RotPanic"]
THEOREMS = ["VpnCloud.Proofs.C08." + n for n in ("node_reject_pure", "unknown_sender_ignored")] + [
            "VpnCloud.Proofs.C08Node.handleNet_no_panic", "VpnCloud.Proofs.C08Node.handleIface_no_panic", "VpnCloud.Proofs.C08Node.housekeep_no_panic", "VpnCloud.Proofs.C08Node.connect_no_panic", "VpnCloud.Proofs.C08Node.wf_reach", "VpnCloud.Proofs.C08Node.never_panics", "VpnCloud.Proofs.C08Node.never_panics'", "VpnCloud.Proofs.C08Node.own_seals_nonempty"]
THEOREMS = THEOREMS + ["VpnCloud.Proofs.C02More." + n for n in ('rejected_no_state', 'sequence_no_state', 'sequence_no_state_reach', 'nodup_reach', 'allRejected_of_forall')]
THEOREMS = THEOREMS + ["VpnCloud.Proofs.GuardsUsed." + n for n in ('datagramTooShort_boundary', 'keyIdInvalid_boundary', 'rotMsgStale_boundary')]
THEOREMS = THEOREMS + ["VpnCloud.Proofs.RotPanic." + n for n in ('keyholder_can_panic', 'panic_needs_session_seal', 'outsider_cannot_reach_site', 'plain_session_cannot_reach_site', 'outsider_cannot_panic_node', 'own_rotation_messages_valid', 'own_rotation_seals_valid')]
RULE = ("suite node: receiver states {unknown sender, pending as initiator, pending as responder, established with lingering handshake} x datagram lengths 0..80 (all in thorough) with structured "
        "first bytes (0xff marker, key ids, message types) x random bodies; truncations, length-field corruptions and bit flips of genuine handshake / data / node-info datagrams replayed from every "
        "party incl. the wrong one; random datagrams up to 65000 bytes; attack sequences interleaved with time and traffic; each under catch_unwind; "
        "distinct non-trivial = distinct (op, #datagrams out, #interface writes, #peers, #pending, mutation kind)")
EXPLANATION = "unauth_no_panic / reject leaves no state (reference monitor: a datagram that is not genuine => no panic, no emission, state unchanged apart from the drop counter)"
LEVEL_TEXT = EXPLANATION
LEVEL_NOTE = "panics inside ring / std are outside the model"
TECHNIQUE = "Lean 4 proof over the node model with explicit panic outcomes + differential correspondence under catch_unwind + reference monitor"
DESIGN_REF = "DESIGN.md section 5, C08"


def gen(tier, rng):
    thorough = tier == "thorough"
    yield nodegen.c08_script(rng, "states", thorough)
    for f in (0, 1, 2, 3, 4):
        yield nodegen.keyholder_script(rng, "keyholder-%d" % f, f)
    yield nodegen.plain_script(rng, "plain-mixed", [True, False, "only"], seconds=8)
    yield nodegen.forge_script(rng, "forged-seals", rng.choice([1, 2, 3]))
    for i in range(40 if thorough else 6):
        yield nodegen.attack_script(rng, "attack-%d" % i, rng.choice([2, 3]), 12 if thorough else 8, rng.choice(["router", "switch"]), rng.choice(["tun", "tap"]))
