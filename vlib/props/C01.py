"""C01 (handshake, PeerCrypto level; node level in the node suite)."""
from ..core import Script
from .. import initgen

from . import _nodecommon
from .. import nodegen

ID = "C01"
SUITES = ["init", "node"]
LEAN_MODULES = ["VpnCloud.Proofs.C01", "VpnCloud.Proofs.C01Node", "VpnCloud.Proofs.C01More", "VpnCloud.Proofs.C01Mutual"]
THEOREMS = ["VpnCloud.Proofs.C01." + n for n in ("readFrom_never_fatal", "readFrom_accept_genuine", "accepted_was_signed_by_trusted", "handleInit_reject_pure", "peerCrypto_reject_pure", "stale_tail_irrelevant", "success_needs_trusted_signature")] + [
            "VpnCloud.Proofs.C01Node.only_sender_becomes_peer", "VpnCloud.Proofs.C01Node.iface_creates_no_peer", "VpnCloud.Proofs.C01Node.housekeep_creates_no_peer"] + [
            "VpnCloud.Proofs.C01More." + n for n in ("peer_added_only_after_success", "new_peer_proved_trusted_key", "cfg_const", "regular_preserved", "regular_reach",
                "new_peer_trusted_in_history", "no_reply_to_rejected", "table_changes_only_for_sender", "routes_only_from_peers", "learned_only_from_peers",
                "routes_only_from_peers_needs_now", "learned_only_from_peers_needs_fresh")]
THEOREMS = THEOREMS + ["VpnCloud.Proofs.C01Mutual." + n for n in ('completion_needs_mutual_trust', 'signatures_only_by_parties', 'shared_key_pair', 'ping_answered_needs_trust', 'reply_needs_acceptance', 'no_reply_without_trust', 'untrusting_side_inert', 'mutual_trust_completes', 'hash_collision_rejects', 'mutual_trust_iff', 'trusted_ping_is_answered', 'one_sided_trust_is_silent', 'retransmit_until_give_up')]
BATCH = 20
SEARCH_BUDGET_S = 400
EXPECTED_CLASSES = ["ideliver:reply", "ideliver:init", "ideliver:err:crypto", "ideliver:err:parse", "ideliver:msg"]
TRUSTED_BASE = ["Ed25519 (ring) idealised: a signature verifies iff it is the signature of a logged genuine message under that key (I1); X25519 symbolic (L2, I3); AEAD ideal (I2)",
                "SHA-256 is computed in the driver glue only; all theorems are parametric in the hash",
                "salts, ephemeral keys, counter start values, ciphertext and signature bytes are observed from the implementation and handed to the model"]
ASSUMPTIONS = ["idealised signatures / AEAD / ECDH as named hypotheses; cipher speeds are finite non-negative floats"]


def obs_class(op, obs):
    k = op.split(" ", 1)[0].replace("ideliver-from", "ideliver")
    r = obs.split(" | ", 1)[0]
    head = r.split(" ", 1)[0]
    if head.startswith("msg:"):
        head = "msg"
    return k + ":" + head


def nontrivial_key(op, obs):
    t = op.split(" ")
    k = t[0].replace("ideliver-from", "ideliver")
    if " | " not in obs:
        return None
    res, st = obs.split(" | ", 1)
    f = dict(x.split("=", 1) for x in st.split(" ") if "=" in x)
    mut = "-"
    for x in t[3:]:
        if "=" in x:
            mut = x.split("=")[0]
    return (k, res.split(" ", 1)[0].split(":")[0:2].__str__(), f.get("init", "-").split("/")[0], f.get("algo"), mut)


def classify(script, result):
    return None
RULE = ("suite init: trust relations among 4 key pairs (8 representative graphs in quick, all 256 pairs of subsets in thorough); genuine ping, pong and peng "
        "with single-bit flips (all positions in thorough / for one graph in quick), truncations, field-level edits of stage / tags / lengths, "
        "extensions, truncation + stale buffer tail; each presented to receivers that are fresh, awaiting pong, awaiting peng, completed, finished; "
        "distinct non-trivial = distinct (op, result class, receiver stage, cipher, mutation kind)")
EXPLANATION = "C01 at PeerCrypto level: readFrom_accept_genuine, handleInit_reject_pure (reference monitor: forged => non-fatal error, no reply, state unchanged)"
LEVEL_TEXT = EXPLANATION
LEVEL_NOTE = "cryptographic content is hypothesis I1; node-level dispatch (unknown / pending / established) is in the node suite"
TECHNIQUE = "Lean 4 proof over a byte-level handshake model with ideal signatures + differential correspondence (byte-exact) + reference monitor"
DESIGN_REF = "DESIGN.md section 5, C01"


def _gen_base(tier, rng):
    thorough = tier == "thorough"
    n = 0
    for i, (ta, tb) in enumerate(initgen.trust_graphs(thorough)):
        n += 1
        yield initgen.c01_script(rng, ta, tb, thorough or i == 0, "trust-%d" % n)
    # a signer whose key is not trusted by the receiver, and two parties sharing one key pair
    yield initgen.c01_script(rng, [1], [0], False, "shared-key", keyA=0, keyB=0)
    yield initgen.c01_script(rng, [0, 1], [1], False, "untrusted-signer")
    yield initgen.cfg_script(rng, "config-path")
    # well-formed and ill-formed content genuinely signed by a trusted / an untrusted key ("a well-formed message signed with an untrusted key")
    for s in initgen.signed_parts_scripts(rng.fork("signed"), thorough):
        yield s


def gen(tier, rng):
    for x in _gen_base(tier, rng):
        yield x
    thorough = tier == "thorough"
    # node level: forged / mutated / misdirected handshake datagrams at a node in the states unknown sender, pending, established
    yield nodegen.c08_script(rng.fork("node"), "node-states", thorough)
    # "accepts its routes and its payload only with a party that proved possession …": sealed datagrams under keys an outsider can choose
    for c in ((1, 2, 3) if thorough else (3,)):
        yield nodegen.forge_script(rng.fork("forge%d" % c), "node-forged-seals-%d" % c, c)
    yield nodegen.forge_script(rng.fork("forge-rot"), "node-forged-seals-rotated", 1, after_rotation=True)
    # a node trusts its own key by default: its own handshake datagrams mirrored back to it from other addresses prove nothing
    for m in (False, True):
        yield nodegen.self_dial_script(rng.fork("self%d" % m), "node-self-dial-%d" % m, m)

obs_class, nontrivial_key = _nodecommon.with_node(obs_class, nontrivial_key)
