"""C09 (node level)."""
from ..core import Script
from .. import nodegen
from ._nodecommon import *

ID = "C09"
LEAN_MODULES = ["VpnCloud.Proofs.C09", "VpnCloud.Proofs.C09More"]
THEOREMS = ["VpnCloud.Proofs.C09." + n for n in ("dispatch_reaches_session", "dispatch_any_pending", "dispatch_original_false")] + [
    "VpnCloud.Proofs.C09More." + n for n in ("other_source_keeps_session", "other_source_claims_swept", "other_source_keeps_claims", "original_claims_false",
        "rejected_keeps_session", "rejected_session_fields", "rejected_by_core_keeps_session", "forged_data_keeps_peer", "fresh_attempt_never_completes",
        "replayed_handshake_keeps_session", "pending_handles_handshake", "pending_expiry_keeps_peer", "pending_expiry_keeps_healthy_peer",
        "pendLoop_touches_only_pending")]
RULE = ("suite node: for every datagram seen on the wire during establishment and operation of a 2-3 node mesh: re-injection at later time offsets from {0,1,2,5,30,59,61,90,119,121,300,600} s "
        "(a subset in quick), with source in {original, another peer, unknown}, verbatim and with single-field edits; then a probe phase of one frame per second both ways; "
        "distinct non-trivial = distinct (op, #datagrams out, #interface writes, #peers, #pending, mutation kind)")
EXPLANATION = "session_untouched / dispatch_reaches_session / pending_expiry_keeps_peer (reference monitor: peers and their routes survive every attack op, probes are delivered exactly once)"
LEVEL_TEXT = EXPLANATION
LEVEL_NOTE = "an in-window duplicate of a data datagram may be delivered again (C03)"
TECHNIQUE = "Lean 4 proof over the node model + differential correspondence + reference monitor with a probe phase"
DESIGN_REF = "DESIGN.md section 5, C09"


def gen(tier, rng):
    thorough = tier == "thorough"
    offs = [0, 1, 2, 5, 30, 59, 61, 90, 119, 121, 300, 600] if thorough else [0, 2, 61, 121]
    yield nodegen.c09_script(rng, "replay-2", 2, offs, probe_seconds=400 if thorough else 130)
    yield nodegen.c09_script(rng, "replay-3", 3, offs[:6] if thorough else [1, 61], probe_seconds=30)
    if thorough:
        yield nodegen.c09_script(rng, "replay-tap", 3, offs, mode="switch", dev="tap", probe_seconds=60)
    for (w, at) in ([(0, 2), (0, 62), (1, 62), (2, 62), (0, 125)] if thorough else [(0, 62), (1, 62)]):
        yield nodegen.stale_attempt_script(rng, "stale-attempt-w%d-t%d" % (w, at), w, at)
    if thorough:
        yield nodegen.stale_attempt_script(rng, "stale-attempt-tap", 0, 62, mode="switch", dev="tap")
    yield nodegen.healing_script(rng, "heal-asym-12", 2, pt=60, chaos=100, asym=(1, 2))
    yield nodegen.forge_script(rng, "forged-seals", rng.choice([1, 2, 3]))
    # replays of genuine payload after key rotations: every key slot's window keeps moving with the ticks, a datagram replayed two or more ticks late is dead
    yield nodegen.long_session_script(rng, "replay-after-rotation", 400, drop_at=(), replay_age=(2, 5, 30))
    # a replayed ping leaves an attempt pending next to the established session for 120 ticks: the session's replay window keeps moving all the same
    yield nodegen.long_session_script(rng, "replay-with-stale-attempt", 150, drop_at=(), replay_age=(2, 5), stale_ping_at=(20, 70))
    for i in range(20 if thorough else 3):
        yield nodegen.attack_script(rng, "attack-%d" % i, rng.choice([2, 3]), 14, long_gap=rng.choice([30, 61, 121]))
