"""C19 - Address dissection of frames and packets is exact and total."""
from ..core import Script, hx

ID = "C19"
SUITES = ["frame"]
LEAN_MODULES = ["VpnCloud.Proofs.C19"]
THEOREMS = [
    "VpnCloud.Proofs.C19.frame_exact",
    "VpnCloud.Proofs.C19.packet_exact",
    "VpnCloud.Proofs.C19.frame_reject_iff",
    "VpnCloud.Proofs.C19.frame_only_header",
]
BATCH = 400
SEARCH_BUDGET_S = 240
RULE = ("ops `frame <hex>` / `packet <hex>`: lengths 0..64 with random content, all/sampled ethertypes, all/sampled "
        "802.1Q tag-control values behind 81 00, nested tags, 16 version nibbles x lengths around 20 and 40; "
        "distinct non-trivial = distinct (dissector, length class, accepted/rejected, tagged/untagged/vlan0, version nibble) "
        "combinations that were accepted or rejected for a reason other than plain emptiness")
EXPECTED_CLASSES = ["frame:ok", "frame:err", "packet:ok", "packet:err"]
TRUSTED_BASE = ["std::io::Cursor::read_exact and slice indexing behave as the list model says (exercised by the correspondence)"]
ASSUMPTIONS = ["input bytes are < 256 (Bytes.WF), which every real byte string satisfies"]
EXPLANATION = ("Theorems frame_exact / packet_exact: the model dissectors (mirroring src/payload.rs) equal the declarative "
               "reference dissectors of Spec/C19.lean on every byte string. The correspondence run compares the real "
               "Frame::parse / Packet::parse with the model, and the Spec with the implementation's own output.")


def obs_class(op, obs):
    return op.split(" ", 1)[0] + ":" + obs.split(" ", 1)[0]


def nontrivial_key(op, obs):
    t = op.split(" ")
    if len(t) < 2 or t[1] == "-":
        return None
    n = len(t[1]) // 2
    b = bytes.fromhex(t[1])
    kind = "-"
    if t[0] == "frame" and n >= 14:
        if b[12:14] == b"\x81\x00":
            kind = "tag-short" if n < 16 else ("vlan0" if (b[14] & 0x0f, b[15]) == (0, 0) else "vlan")
        else:
            kind = "plain"
    if t[0] == "packet":
        kind = "v%d" % (b[0] >> 4)
    return (t[0], min(n, 41), obs.split(" ", 1)[0], kind)


def classify(script, result):
    return None


def _frame(dst, src, rest):
    return "frame " + hx(dst + src + rest)


def gen(tier, rng):
    thorough = tier == "thorough"
    ops = []
    per_len = 10000 if thorough else 40
    # all lengths 0..64 with random content (both dissectors); bias some of them towards tagged frames / valid versions
    for n in range(0, 65):
        for k in range(per_len):
            b = bytearray(rng.bytes(n))
            if n >= 14 and k % 3 == 0:
                b[12], b[13] = 0x81, 0x00
            ops.append("frame " + hx(bytes(b)))
            if n >= 1 and k % 2 == 0:
                b[0] = (rng.choice([4, 6, 4, 6, 0, 5, 15]) << 4) | (b[0] & 0x0f)
            ops.append("packet " + hx(bytes(b)))
    # long inputs: lengths around multiples of 256 and 65536 (length arithmetic in narrow integer types), typical MTUs, jumbo frames
    longs = [255, 256, 257, 270, 275, 276, 295, 296, 300, 511, 512, 513, 532, 552, 1023, 1024, 1044, 1280, 1500, 1514, 4096, 9000, 65535, 65536, 65556, 65576]
    for n in longs:
        for k in range(12 if thorough else 4):
            b = bytearray(rng.bytes(min(n, 64)) + bytes(max(0, n - 64)))
            if k % 2 == 0:
                b[12], b[13] = 0x81, 0x00
            ops.append("frame " + hx(bytes(b)))
            b[0] = (rng.choice([4, 6, 4, 6, 5]) << 4) | (b[0] & 0x0f)
            ops.append("packet " + hx(bytes(b)))
    # ethertypes
    ets = range(65536) if thorough else sorted(set([0x8100, 0x80ff, 0x8101, 0x0081, 0x8000, 0x0000, 0xffff, 0x88a8, 0x0800]
                                              + [rng.below(65536) for _ in range(1500)]))
    for et in ets:
        body = rng.bytes(rng.choice([0, 1, 2, 3, 4, 10]))
        ops.append(_frame(rng.bytes(6), rng.bytes(6), bytes([et >> 8, et & 0xff]) + body))
    # tag-control values behind 81 00 (all of them: the quantifier of C13/C19)
    tcis = range(65536) if thorough else sorted(set(list(range(0, 65536, 4096)) + list(range(0, 4096, 7))
                                               + [0x0fff, 0x1000, 0xf000, 0xffff, 0xe000, 0x0001, 0x0100, 0x1001]
                                               + [rng.below(65536) for _ in range(1500)]))
    for tci in tcis:
        tail = rng.bytes(rng.choice([0, 2, 4, 8]))
        ops.append(_frame(rng.bytes(6), rng.bytes(6), bytes([0x81, 0x00, tci >> 8, tci & 0xff]) + tail))
    # nested tags and truncated tags
    for _ in range(2000 if thorough else 200):
        t1, t2 = rng.below(65536), rng.below(65536)
        full = rng.bytes(6) + rng.bytes(6) + bytes([0x81, 0, t1 >> 8, t1 & 255, 0x81, 0, t2 >> 8, t2 & 255]) + rng.bytes(6)
        ops.append("frame " + hx(full[: rng.range(12, len(full))]))
    # version nibbles x lengths around the limits
    for v in range(16):
        for n in list(range(0, 4)) + list(range(17, 24)) + list(range(37, 44)) + [60]:
            for _ in range(20 if thorough else 2):
                b = bytearray(rng.bytes(n))
                if n:
                    b[0] = (v << 4) | (b[0] & 15)
                ops.append("packet " + hx(bytes(b)))
    rng.shuffle(ops)
    # stateless suite: group ops into scripts of 50 for reporting granularity
    for i in range(0, len(ops), 50):
        yield Script("frame-%d" % (i // 50), ops[i:i + 50], {"suite": "frame"})

LEVEL_TEXT = ("Proof: Lean theorems frame_exact / packet_exact state that the model of Frame::parse / Packet::parse equals a "
              "declarative reference dissector on every byte string (accept/reject decision and both addresses), plus "
              "frame_reject_iff and frame_only_header. The model is tied to the code by a differential run of the real "
              "dissectors against the model, and the reference is evaluated directly on the implementation's output.")
LEVEL_NOTE = ("Trusted: Lean kernel (axioms propext, Classical.choice, Quot.sound only), fidelity of the hand-written model as "
              "checked by the correspondence run, std Cursor/slice semantics. Panics are observed by the driver (catch_unwind), "
              "the model has no panic branch for these functions.")
TECHNIQUE = "Lean 4 proof (model = reference for all byte strings) + differential correspondence with the Rust dissectors"
DESIGN_REF = "DESIGN.md section 5, C19"
