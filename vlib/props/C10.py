"""C10 (node level)."""
from ..core import Script
from .. import nodegen
from ._nodecommon import *

ID = "C10"
LEAN_MODULES = ["VpnCloud.Proofs.C10", "VpnCloud.Proofs.C10More", "VpnCloud.Proofs.C10Net"]
THEOREMS = ["VpnCloud.Proofs.C10." + n for n in ("iface_read_no_iface_write", "iface_read_only_to_peers", "net_never_relays")] + [
    "VpnCloud.Proofs.C10More." + n for n in ("iface_write_only_from_peer_data", "non_peer_never_reaches_iface", "handshake_never_reaches_iface", "at_most_one_iface_write",
        "housekeep_no_iface", "connect_no_iface", "housekeep_sends_no_payload", "housekeep_never_sends_data", "emit_known", "emit_unknown_broadcast",
        "broadcast_dests_sublist", "broadcast_each_is_seal", "broadcast_reaches_all", "emit_unknown_router", "delivered_exactly_once", "one_hop_exactly_once",
        "one_hop_in_sync", "pendFreshAt_of_reach")] + ["VpnCloud.Proofs.C10MoreLemmas.session_roundtrip", "VpnCloud.Proofs.C10MoreLemmas.session_roundtrip_plain"]
THEOREMS = THEOREMS + ["VpnCloud.Proofs.C10Net." + n for n in ('stream_delivered_exactly_once', 'stream_delivered_exactly_once_quiet', 'duplicate_within_window_accepted', 'duplicate_rejected_after_two_ticks', 'frames_delivered_exactly_once', 'frames_delivered_same_mode', 'misdelivered_never_reaches_iface', 'no_other_node')]
RULE = ("suite node: frames (destination claimed / learned / unknown / broadcast / own address / garbage) injected at any node of 2-5 node meshes in router, switch, hub and normal mode with "
        "tun and tap dissectors; per step: wire datagrams caused by an interface read = number of selected peers (by the node's own dumped table), wire datagrams caused by a received payload = 0, "
        "interface writes = deliveries of byte-identical payload of an established peer; distinct non-trivial = distinct (op, #datagrams out, #interface writes, #peers, #pending, mutation kind)")
EXPLANATION = "net_never_emits_data / iface_write_only_from_peer_data / emit_count (reference monitor with conservation checks per step)"
LEVEL_TEXT = EXPLANATION
LEVEL_NOTE = "exactly-once is checked over the non-duplicating simulated network"
TECHNIQUE = "Lean 4 proof over the node model + differential correspondence + per-step conservation monitor"
DESIGN_REF = "DESIGN.md section 5, C10"


def gen(tier, rng):
    thorough = tier == "thorough"
    combos = [("router", "tun"), ("switch", "tap"), ("hub", "tap"), ("normal", "tap"), ("normal", "tun"), ("switch", "tun"), ("hub", "tun")]
    i = 0
    yield nodegen.switch_timeout_script(rng, "switch-timeout")
    yield nodegen.plain_script(rng, "plain-switch", [True, True, "only"], mode="switch", dev="tap", seconds=8)
    yield nodegen.close_script(rng, "close-switch", mode="switch", dev="tap")
    # "delivered … to every peer selected for it": selection by nested claims of every family, down to the default routes 0.0.0.0/0 and fd00::/8
    yield nodegen.families_script(rng, "families", 8 if thorough else 4)
    yield nodegen.announce_script(rng, "announce-withdraw", 12)      # claims grow, shrink and are withdrawn altogether by later announcements
    for sw in (False, True):
        yield nodegen.nested_claims_script(rng, "nested-claims-%d" % sw, sw)
    for mode, dev in combos:
        for n in ([2, 3, 4, 5] if thorough else [3]):
            for _ in range(3 if thorough else 1):
                i += 1
                yield nodegen.c10_script(rng, "fwd-%d-%s-%s-%d" % (i, mode, dev, n), n, mode, dev, 120 if thorough else 40)
