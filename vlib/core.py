"""Orchestrator core for the vpncloud verification framework (python3, stdlib only).

Pieces: build (translator, lake, cargo with the guard on), run (implementation driver and Lean
model driver over the same operation scripts), compare, search/shrink, axiom audit, evidence,
known findings.  See DESIGN.md section 2.
"""
import fcntl
import hashlib
import json
import os
import re
import subprocess
import sys
import time

ROOT = os.path.dirname(os.path.dirname(os.path.abspath(__file__)))
REPO = os.environ.get("VERIF_REPO", "/repo")
BUILD = os.path.join(ROOT, ".build")
LEAN = os.path.join(ROOT, "lean")
HARNESS = os.path.join(ROOT, "harness")
TARGET = os.path.join(BUILD, "target")
DRIVER_BIN = os.path.join(TARGET, "debug", "vpncloud")
VPMODEL = os.path.join(LEAN, ".lake", "build", "bin", "vpmodel")
RUSTFLAGS = "--cfg dswd_vpncloud_verif -A unused -A unexpected_cfgs"
ALLOWED_AXIOMS = {"propext", "Classical.choice", "Quot.sound"}
FORBIDDEN_RE = re.compile(
    r"\bsorry\b|\badmit\b|^axiom |native_decide|bv_decide|implemented_by|\bunsafe |maxHeartbeats 0|^partial |\bpartial def"
)


def log(msg):
    sys.stderr.write(msg + "\n")
    sys.stderr.flush()


def sh(cmd, cwd=None, env=None, timeout=None, stdin_data=None):
    e = dict(os.environ)
    if env:
        e.update(env)
    p = subprocess.run(
        cmd, cwd=cwd, env=e, timeout=timeout, input=stdin_data,
        stdout=subprocess.PIPE, stderr=subprocess.STDOUT, text=True, shell=isinstance(cmd, str),
    )
    return p.returncode, p.stdout


class Lock:
    """Serialises builds (one cargo target dir, one lake build dir)."""

    def __init__(self, name="build"):
        os.makedirs(BUILD, exist_ok=True)
        self.path = os.path.join(BUILD, name + ".lock")

    def __enter__(self):
        self.f = open(self.path, "w")
        fcntl.flock(self.f, fcntl.LOCK_EX)
        return self

    def __exit__(self, *a):
        fcntl.flock(self.f, fcntl.LOCK_UN)
        self.f.close()


# ----------------------------------------------------------------------------- builds

def cargo_env():
    return {
        "RUSTFLAGS": RUSTFLAGS,
        "VPNCLOUD_VERIF_DRIVER_DIR": HARNESS,
        "CARGO_TARGET_DIR": TARGET,
        "CARGO_NET_OFFLINE": "true",
    }


def build_driver():
    """Build /repo's current working tree with the hooks on. Returns (ok, log)."""
    with Lock("cargo"):
        rc, out = sh(["cargo", "build", "--offline"], cwd=REPO, env=cargo_env(), timeout=3600)
    return rc == 0, out


def run_translator():
    """Regenerate lean/VpnCloud/Generated/*.lean from /repo's sources. Returns (ok, log)."""
    rc, out = sh([sys.executable, os.path.join(ROOT, "translate", "translate.py"), REPO,
                  os.path.join(LEAN, "VpnCloud", "Generated")])
    return rc == 0, out


def build_lean(targets):
    with Lock("lake"):
        rc, out = sh(["lake", "build"] + list(targets), cwd=LEAN, timeout=3600)
        if rc != 0 and "error" not in out:
            # no diagnostic at all: the compiler was killed from outside (memory pressure of a loaded machine).  Once more; a real failure fails again.
            rc, out2 = sh(["lake", "build"] + list(targets), cwd=LEAN, timeout=3600)
            out = out + "\n[lake build ended without a diagnostic (rc=%d); second attempt]\n" % rc + out2
    return rc == 0, out


def source_scan(mods):
    """grep the Lean sources of the given modules (and everything under Model/, Spec/, Generated/)
    for constructs that are not allowed in proofs. Comments are stripped first."""
    hits = []
    files = []
    for sub in ("Model", "Spec", "Generated", "Proofs"):
        d = os.path.join(LEAN, "VpnCloud", sub)
        for dp, _, fns in os.walk(d):
            for fn in fns:
                if fn.endswith(".lean"):
                    files.append(os.path.join(dp, fn))
    for f in files:
        txt = open(f).read()
        txt = re.sub(r"/-.*?-/", lambda m: "\n" * m.group(0).count("\n"), txt, flags=re.S)
        for i, line in enumerate(txt.split("\n"), 1):
            line = re.sub(r"--.*$", "", line)
            if FORBIDDEN_RE.search(line):
                hits.append("%s:%d: %s" % (os.path.relpath(f, LEAN), i, line.strip()))
    return hits


def audit_axioms(pid, theorems, imports):
    """#print axioms for every property theorem. Returns dict theorem -> list of axioms or None
    (None = theorem missing / does not check)."""
    d = os.path.join(BUILD, "audit")
    os.makedirs(d, exist_ok=True)
    path = os.path.join(d, pid + ".lean")
    with open(path, "w") as f:
        for m in imports:
            f.write("import %s\n" % m)
        for t in theorems:
            f.write("#print axioms %s\n" % t)
    with Lock("lake"):
        rc, out = sh(["lake", "env", "lean", path], cwd=LEAN, timeout=1800)
    res = {t: None for t in theorems}
    # messages may span several lines
    flat = re.sub(r"\n\s+", " ", out)
    for t in theorems:
        m = re.search(r"'%s' depends on axioms: \[([^\]]*)\]" % re.escape(t), flat)
        if m:
            res[t] = [a.strip() for a in m.group(1).split(",") if a.strip()]
        elif re.search(r"'%s' does not depend on any axioms" % re.escape(t), flat):
            res[t] = []
    return res, out


# ----------------------------------------------------------------------------- running scripts

# a driver process that produces no output for this long is stuck in the operation it is executing (a hang is an observation, like a panic)
STALL_S = float(os.environ.get("VERIF_STALL_S", "90"))


def _run_driver(ops_path, out_path, first, last, stall=None):
    """run the driver on lines [first, last) of ops_path; returns (observations, hung)"""
    import select
    with open(ops_path) as f:
        chunk = "".join(f.readlines()[first:last])
    with open(out_path, "wb") as fout:
        p = subprocess.Popen([DRIVER_BIN], stdin=subprocess.PIPE, stdout=fout, stderr=subprocess.DEVNULL,
                             env=dict(os.environ, VPNCLOUD_VERIF="1"))
        import threading

        def feed():
            try:
                p.stdin.write(chunk.encode())
                p.stdin.close()
            except (BrokenPipeError, OSError):
                pass
        th = threading.Thread(target=feed, daemon=True)
        th.start()
        last_size, last_change, hung = -1, time.time(), False
        while True:
            try:
                p.wait(timeout=0.5 if last_size < 0 else 2.0)
                break
            except subprocess.TimeoutExpired:
                size = os.path.getsize(out_path)
                if size != last_size:
                    last_size, last_change = size, time.time()
                elif time.time() - last_change > (stall or STALL_S):
                    hung = True
                    p.kill()
                    p.wait()
                    break
    data = open(out_path, "rb").read().decode("utf-8", "replace")
    out = data.split("\n")
    if out and out[-1] == "":
        out.pop()
    elif out and hung:
        out.pop()          # an incomplete last line
    return out, hung, p.returncode


def run_impl(lines, workdir, tag="impl"):
    """Feed operation lines to the real code (driver inside the vpncloud binary)."""
    os.makedirs(workdir, exist_ok=True)
    ops = os.path.join(workdir, tag + ".ops")
    with open(ops, "w") as f:
        f.write("\n".join(lines) + "\n")
    result = []
    first = 0
    hangs = 0
    while first < len(lines):
        if hangs >= 3:
            # enough evidence; do not spend the stall time on every remaining script
            result += ["skipped-after-hang"] * (len(lines) - first)
            break
        out, hung, rc = _run_driver(ops, os.path.join(workdir, tag + ".out"), first, len(lines), None if hangs == 0 else min(STALL_S, 5.0))
        n = len(lines) - first
        if hung and len(out) < n:
            hangs += 1
            # the operation after the last answered one never returned; what follows up to the next script boundary is not run
            idx = first + len(out)
            result += out + ["hang"]
            nxt = idx + 1
            while nxt < len(lines) and lines[nxt] != "reset":
                result.append("skipped-after-hang")
                nxt += 1
            first = nxt
            continue
        if rc != 0 or len(out) != n:
            # the process died (abort, stack overflow, allocation failure): report what we have
            out = (out + ["crash rc=%s" % rc] * (n - len(out)))[:n]
        result += out
        break
    return result


def run_model(lines, impl_obs, workdir, tag="model"):
    """Feed `op<TAB>impl observation` to vpmodel; returns (model observations, spec verdicts)."""
    os.makedirs(workdir, exist_ok=True)
    inp = os.path.join(workdir, tag + ".in")
    with open(inp, "w") as f:
        for l, o in zip(lines, impl_obs):
            if l == "" or l.startswith("#"):
                f.write(l + "\n")
            else:
                f.write(l + "\t" + o + "\n")
    with open(inp) as fin:
        p = subprocess.run([VPMODEL], stdin=fin, stdout=subprocess.PIPE, stderr=subprocess.PIPE, text=True)
    out = p.stdout.split("\n")
    if out and out[-1] == "":
        out.pop()
    mobs, spec = [], []
    for i in range(len(lines)):
        if i < len(out):
            parts = out[i].split("\t")
            mobs.append(parts[0])
            spec.append(parts[1] if len(parts) > 1 else "-")
        else:
            mobs.append("model-crash rc=%s %s" % (p.returncode, p.stderr.strip()[:200]))
            spec.append("-")
    return mobs, spec


class Script:
    """A self-contained operation sequence (state starts fresh)."""
    __slots__ = ("name", "ops", "meta")

    def __init__(self, name, ops, meta=None):
        self.name = name
        self.ops = list(ops)
        self.meta = meta or {}


def run_scripts(scripts, workdir, tag="run"):
    """Run many scripts in one process pair. Returns list of per-script results:
    dict(script, impl=[..], model=[..], spec=[..])."""
    lines = []
    index = []
    for s in scripts:
        lines.append("reset")
        start = len(lines)
        lines.extend(s.ops)
        index.append((start, len(lines)))
    impl = run_impl(lines, workdir, tag)
    mobs, spec = run_model(lines, impl, workdir, tag)
    for i, o in enumerate(impl):
        if " alloc=big:" in o:
            spec[i] = "FAIL C16 a decoder requested an oversized allocation on this input (%s bytes)" % o.split(" alloc=big:")[1].split(" ")[0]
        if o == "hang":
            spec[i] = "FAIL the implementation did not return from this operation within %d s (hang)" % STALL_S
    res = []
    for s, (a, b) in zip(scripts, index):
        res.append({"script": s, "impl": impl[a:b], "model": mobs[a:b], "spec": spec[a:b]})
    return res


def first_problem(r):
    """(kind, index) of the first spec failure / disagreement in a script result, or None."""
    for i, (io, mo, sv) in enumerate(zip(r["impl"], r["model"], r["spec"])):
        if sv.startswith("FAIL"):
            return ("spec", i)
    for i, (io, mo, sv) in enumerate(zip(r["impl"], r["model"], r["spec"])):
        if io != mo:
            return ("disagree", i)
    return None


def shrink(script, kind, workdir, max_runs=400):
    """Delta-debug a failing script: drop operations while the same kind of problem remains."""
    target = [None]

    def fails(ops):
        r = run_scripts([Script(script.name, ops, script.meta)], workdir, "shrink")[0]
        p = first_problem(r)
        if p is None or p[0] != kind:
            return False
        # the same rule of the Spec must fail (a shorter script that fails for another reason is another finding, not a smaller replay)
        return kind != "spec" or target[0] is None or r["spec"][p[1]][:32] == target[0]
    ops = list(script.ops)
    runs = 0
    # first cut everything after the failing op
    r = run_scripts([Script(script.name, ops, script.meta)], workdir, "shrink")[0]
    p = first_problem(r)
    if p is None:
        return script
    if kind == "spec":
        target[0] = r["spec"][p[1]][:32]
        if r["impl"][p[1]] == "hang":
            # the hang is established; further runs wait only briefly (operations take milliseconds)
            global STALL_S
            STALL_S = min(STALL_S, 6.0)
            max_runs = min(max_runs, 60)
    ops = ops[: p[1] + 1]
    n = 2
    while len(ops) >= 2 and runs < max_runs:
        chunk = max(1, len(ops) // n)
        reduced = False
        for i in range(0, len(ops) - 1, chunk):  # never drop the last (failing) op
            cand = ops[:i] + ops[min(i + chunk, len(ops) - 1):]
            if len(cand) == len(ops):
                continue
            runs += 1
            if fails(cand):
                ops = cand
                n = max(n - 1, 2)
                reduced = True
                break
        if not reduced:
            if chunk == 1:
                break
            n = min(n * 2, len(ops))
    return Script(script.name + "-min", ops, script.meta)


# ----------------------------------------------------------------------------- known findings

def load_known_findings():
    path = os.path.join(ROOT, "KNOWN_FINDINGS.txt")
    known, fixed = [], []
    if os.path.exists(path):
        for line in open(path):
            line = line.strip()
            if not line or line.startswith("#"):
                continue
            m = re.match(r"known: property=(\S+) class=(\S+) (.*)", line)
            if m:
                known.append({"property": m.group(1), "cls": m.group(2), "what": m.group(3)})
                continue
            m = re.match(r"fixed: property=(\S+) (\S+) (.*)", line)
            if m:
                fixed.append({"property": m.group(1), "commit": m.group(2), "what": m.group(3)})
    return known, fixed


# ----------------------------------------------------------------------------- evidence

def write_evidence(pid, tier, seed, coverage, assumptions, wall, violations):
    os.makedirs(os.path.join(ROOT, "evidence"), exist_ok=True)
    ev = {
        "property_id": pid,
        "tier": tier,
        "seed": seed,
        "level": "proof",
        "coverage": coverage,
        "assumptions": assumptions,
        "wall_s": round(wall, 2),
        "violations": violations,
    }
    path = os.path.join(ROOT, "evidence", pid + ".json")
    tmp = path + ".tmp"
    with open(tmp, "w") as f:
        json.dump(ev, f, indent=1)
    os.replace(tmp, path)
    return path


def write_replay(pid, name, content):
    d = os.path.join(ROOT, "replays")
    os.makedirs(d, exist_ok=True)
    path = os.path.join(d, "%s-%s.txt" % (pid, name))
    with open(path, "w") as f:
        f.write(content)
    return path


class SplitMix64:
    """One PRNG state for every random choice of a run (replayable from VERIF_SEED)."""

    def __init__(self, seed):
        self.s = seed & 0xFFFFFFFFFFFFFFFF

    def next(self):
        self.s = (self.s + 0x9E3779B97F4A7C15) & 0xFFFFFFFFFFFFFFFF
        z = self.s
        z = ((z ^ (z >> 30)) * 0xBF58476D1CE4E5B9) & 0xFFFFFFFFFFFFFFFF
        z = ((z ^ (z >> 27)) * 0x94D049BB133111EB) & 0xFFFFFFFFFFFFFFFF
        return z ^ (z >> 31)

    def below(self, n):
        return self.next() % n if n > 0 else 0

    def range(self, a, b):
        """inclusive"""
        return a + self.below(b - a + 1)

    def bytes(self, n):
        out = bytearray()
        while len(out) < n:
            out += self.next().to_bytes(8, "little")
        return bytes(out[:n])

    def choice(self, seq):
        return seq[self.below(len(seq))]

    def chance(self, num, den):
        return self.below(den) < num

    def shuffle(self, lst):
        for i in range(len(lst) - 1, 0, -1):
            j = self.below(i + 1)
            lst[i], lst[j] = lst[j], lst[i]

    def fork(self, label):
        h = hashlib.sha256(("%d/%s" % (self.s, label)).encode()).digest()
        return SplitMix64(int.from_bytes(h[:8], "little"))


def hx(b):
    return b.hex() if len(b) else "-"


# ---------------------------------------------------------------------------------------------
# source fingerprints: which of the files a property is anchored in differ from the tree the
# model was last validated against (FINGERPRINTS.json, written by tools/gen_fingerprints.py from
# /repo's HEAD).  A difference is NOT an alarm; it only makes the quick tier explore as deeply
# as the thorough tier (runner.py), because that is when the hand-written model is most likely stale.
FINGERPRINTS = os.path.join(ROOT, "FINGERPRINTS.json")


def normalise_rust(text):
    import re
    out = []
    for line in text.splitlines():
        s = line.strip()
        if s.startswith("//"):
            continue
        s = re.sub(r"\s+", " ", s)
        if s:
            out.append(s)
    return "\n".join(out)


def fingerprint_text(text):
    import hashlib
    return hashlib.sha256(normalise_rust(text).encode()).hexdigest()[:24]


def property_anchor_files(pid):
    for l in open(os.path.join(ROOT, "properties.jsonl")):
        p = json.loads(l)
        if p["id"] == pid:
            return list(p.get("anchors", {}).get("files", []))
    return []


def changed_anchor_files(pid):
    try:
        base = json.load(open(FINGERPRINTS))["files"]
    except Exception:
        return []
    changed = []
    for f in property_anchor_files(pid):
        path = os.path.join(REPO, f)
        try:
            fp = fingerprint_text(open(path, encoding="utf-8", errors="replace").read())
        except OSError:
            fp = "missing"
        if base.get(f) != fp:
            changed.append(f)
    return changed
