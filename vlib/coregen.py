"""Generators for the suite `core` (real CryptoCore pairs), shared by C02, C03, C04."""
import itertools
from .core import Script, hx

ALGOS = ["aes128", "aes256", "chacha"]


def nonce_hex(v):
    return (v % (1 << 96)).to_bytes(12, "big").hex()


def inc_ops(rng, thorough):
    """byte-carry boundary patterns of Nonce::increment (exhaustive over boundary patterns) + random"""
    ops = []
    for k in range(0, 13):          # k trailing 0xff bytes
        for lastbyte in (0xfe, 0xff, 0x00, 0x7f, 0x80):
            for fill in (0x00, 0xff, 0xab):
                b = bytearray([fill] * 12)
                for i in range(k):
                    b[11 - i] = 0xff
                if k < 12:
                    b[11 - k] = lastbyte
                ops.append("inc " + bytes(b).hex())
    for v in (0, 1, (1 << 48) - 1, 1 << 48, (1 << 56) - 1, 1 << 56, (1 << 95) - 1, 1 << 95, (1 << 96) - 1, (1 << 96) - 2,
              (1 << 95) + (1 << 48) - 1, (1 << 95) + (1 << 56) - 1):
        ops.append("inc " + nonce_hex(v))
    for _ in range(20000 if thorough else 800):
        ops.append("inc " + rng.bytes(12).hex())
    return ops


def window_interleavings(algo, depth, ndgrams=3):
    """C03: every interleaving of {seal next, deliver any earlier datagram (again), tick} to the given depth"""
    def rec(prefix, sealed, remaining):
        if remaining == 0:
            yield prefix
            return
        choices = [("tick",)]
        if sealed < ndgrams:
            choices.append(("seal",))
        for d in range(sealed):
            choices.append(("deliver", d))
        for c in choices:
            yield from rec(prefix + [c], sealed + (1 if c[0] == "seal" else 0), remaining - 1)
    n = 0
    for seq in rec([], 0, depth):
        if not any(c[0] == "deliver" for c in seq):
            continue
        ops = ["cnew " + algo]
        for c in seq:
            if c[0] == "tick":
                ops.append("tick b")
            elif c[0] == "seal":
                ops.append("seal a 0%d" % (n % 10))
            else:
                ops.append("deliver d%d b" % c[1])
        n += 1
        yield Script("window-%s-%d-%d" % (algo, depth, n), ops, {"suite": "core"})


def random_history(rng, algo, length, name, with_rotation=True, mutations=True):
    ops = ["cnew " + algo]
    nd = 0
    senders = []
    lens = []
    nkeys = 0
    rid = {"a": 0, "b": 0}
    for _ in range(length):
        k = rng.below(100)
        if k < 30 or nd == 0:
            side = rng.choice("ab") if rng.chance(1, 3) else "a"
            n = rng.choice([0, 1, 2, 5, 16, 17, 64, rng.below(300), rng.below(300), rng.below(9000)]) if rng.chance(1, 8) else rng.below(40)
            ops.append("seal %s %s" % (side, hx(rng.bytes(n))))
            senders.append(side)
            lens.append(n + 24)
            nd += 1
        elif k < 70:
            d = rng.below(nd) if rng.chance(1, 2) else max(0, nd - 1 - rng.below(3))
            side = "b" if senders[d] == "a" else "a"
            if rng.chance(1, 12):
                side = senders[d]          # reflection
            mut = ""
            if mutations and rng.chance(1, 4):
                m = rng.below(5)
                L = lens[d]
                if m == 0:
                    mut = " flip=%d" % rng.below(8 * L)
                elif m == 1:
                    mut = " flip=%d" % rng.below(64)
                elif m == 2:
                    mut = " trunc=%d" % rng.below(L + 1)
                elif m == 3:
                    mut = " set=%d:%d" % (rng.below(8), rng.below(256))
                else:
                    mut = " app=%s" % hx(rng.bytes(rng.range(1, 4)))
            ops.append("deliver d%d %s%s" % (d, side, mut))
        elif k < 88:
            ops.append("tick %s" % rng.choice("ab"))
        elif with_rotation:
            # a rotation as the protocol does it: receiver installs first, then the sender switches
            nkeys += 1
            side = rng.choice("ab")
            other = "b" if side == "a" else "a"
            rid[side] += 1
            i = rid[side] * 2 + (1 if side == "a" else 0)
            key = "k%d" % nkeys
            ops.append("rotate %s %d 0 %s" % (other, i, key))
            if rng.chance(3, 4):
                ops.append("rotate %s %d 1 %s" % (side, i, key))
    return Script(name, ops, {"suite": "core"})


def tamper_script(rng, algo, n, name):
    """C02: every bit position and every truncation length of one sealed datagram; reflection"""
    plain = rng.bytes(n)
    ops = ["cnew " + algo, "seal a " + hx(plain)]
    L = n + 24
    for bit in range(8 * L):
        ops.append("deliver d0 b flip=%d" % bit)
    for l in range(L):
        ops.append("deliver d0 b trunc=%d" % l)
    ops.append("deliver d0 a")
    ops.append("deliver d0 b app=00")
    ops.append("deliver d0 b")
    return Script(name, ops, {"suite": "core"})


def length_script(rng, algo, lengths, name):
    ops = ["cnew " + algo]
    for i, n in enumerate(lengths):
        side = "a" if i % 2 == 0 else "b"
        off = rng.choice([8, 8, 9, 16, 100])
        ops.append("seal %s %s off=%d" % (side, hx(rng.bytes(n)), off))
        ops.append("deliver d%d %s" % (i, "b" if side == "a" else "a"))
    return Script(name, ops, {"suite": "core"})


def boundary_script(rng, algo, name):
    """C04: counter values at and around every byte-carry boundary and the 56-bit limit"""
    ops = ["cnew " + algo]
    nd = 0
    for side, base in (("a", 1 << 95), ("b", 0)):
        other = "b" if side == "a" else "a"
        vals = []
        for k in range(1, 8):
            vals += [(1 << (8 * k)) - 3]
        vals += [(1 << 56) + 5, (1 << 64) - 2, (1 << 72) - 2, (1 << 80) - 2]
        if side == "b":
            # the lower half from its very bottom to its very top: the counter must run on upwards (out of the half, never back onto used values).
            # (Not for the upper half: there the 12-byte counter of the code wraps to zero after 2^95 seals, which the property's bound excludes.)
            vals = [0] + vals + [(1 << 95) - 3]
        for v in sorted(set(vals)):
            ops.append("setsend %s 0 %s" % (side, nonce_hex(base + v)))
            for _ in range(5):
                ops.append("seal %s %s" % (side, hx(rng.bytes(3))))
                ops.append("deliver d%d %s" % (nd, other))
                nd += 1
    return Script(name, ops, {"suite": "core"})


def poison_script(rng, algo, name):
    """datagrams that FAIL authentication (altered copies of genuine ones with newer counters, forged ones) must not move the replay window: the genuine
    datagrams, delivered after two further ticks, are the newest thing the receiver has ever accepted and must be accepted"""
    ops = ["cnew " + algo]
    nd = 0
    for side, other in (("a", "b"), ("b", "a")):
        first = nd
        for _ in range(4):
            ops.append("seal %s %s" % (side, hx(rng.bytes(4))))
            nd += 1
        ops.append("deliver d%d %s" % (first, other))                               # the window is in use
        for k in (first + 3, first + 2):
            ops.append("deliver d%d %s flip=%d" % (k, other, 64 + rng.below(80)))   # altered ciphertext / tag of NEWER datagrams
            ops.append("deliver d%d %s trunc=%d" % (k, other, 20 + rng.below(6)))
        ops += ["tick " + other, "tick " + other, "tick " + other]
        for k in (first + 1, first + 2, first + 3):
            ops.append("deliver d%d %s" % (k, other))
    return Script(name, ops, {"suite": "core"})


def forge_script(rng, algo, name):
    """C02: datagrams sealed by somebody who was never given a session key: under the all-zero / all-ones / a random key, naming every key slot
    (0 = the agreed key, 1..3 = slots that no key has been rotated into yet), towards both ends, before and after a rotation"""
    ops = ["cnew " + algo, "seal a " + hx(rng.bytes(9)), "deliver d0 b"]
    for rnd in range(2):
        for side in ("a", "b"):
            for kid in (0, 1, 2, 3, 4, 255):
                for kind in ("zero", "ff", "rand"):
                    ops.append("forge %s %d %s %s" % (side, kid, kind, hx(rng.bytes(rng.choice([0, 1, 20])))))
        ops += ["rotate a 2 1 k2", "rotate b 2 0 k2", "tick a", "tick b"]
    ops += ["seal a " + hx(rng.bytes(5)), "deliver d1 b"]
    return Script(name, ops, {"suite": "core"})


def core_scripts(tier, rng, focus):
    thorough = tier == "thorough"
    ops = inc_ops(rng.fork("inc"), thorough)
    if focus in ("C04", "all"):
        for i in range(0, len(ops), 200):
            yield Script("inc-%d" % (i // 200), ops[i:i + 200], {"suite": "core"})
        for a in ALGOS:
            yield boundary_script(rng, a, "boundary-" + a)
    if focus in ("C03", "all"):
        for a in ALGOS:
            yield poison_script(rng, a, "poison-" + a)
        depth = 9 if thorough else 6
        for a in (ALGOS if thorough else ["chacha"]):
            for d in range(2, depth + 1):
                yield from window_interleavings(a, d, 5 if thorough and d <= 7 else 3)
    if focus in ("C02", "all"):
        for a in ALGOS:
            yield forge_script(rng, a, "forge-" + a)
            for n in ([0, 1, 5, 17, 40] if thorough else [0, 5]):
                yield tamper_script(rng, a, n, "tamper-%s-%d" % (a, n))
            L = list(range(0, 301)) + [rng.range(301, 9000) for _ in range(40 if thorough else 8)] + [9000]
            if not thorough:
                L = [x for x in L if x % 7 == 0 or x > 290]
            yield length_script(rng, a, L, "lengths-" + a)
    nrand = 1500 if thorough else 120
    for i in range(nrand):
        a = ALGOS[i % 3]
        yield random_history(rng, a, rng.range(10, 400 if thorough else 80), "hist-%d" % i)
