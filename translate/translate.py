#!/usr/bin/env python3
"""Translator: regenerates lean/VpnCloud/Generated/*.lean from the Rust sources of /repo.
usage: translate.py <repo> <outdir>"""
import os
import re
import sys


def main():
    repo, outdir = sys.argv[1], sys.argv[2]
    os.makedirs(outdir, exist_ok=True)
    sys.path.insert(0, os.path.dirname(os.path.abspath(__file__)))
    import consts
    import interval
    import configrules
    import guards
    for name, txt in (("Consts.lean", consts.generate(repo)), ("Interval.lean", interval.generate(repo)), ("ConfigRules.lean", configrules.generate(repo)),
                      ("Guards.lean", guards.generate(repo))):
        path = os.path.join(outdir, name)
        old = open(path).read() if os.path.exists(path) else None
        if old != txt:
            open(path, "w").write(txt)
    return 0


if __name__ == "__main__":
    sys.exit(main())
