"""Translates the field-by-field overlay rules of `Config::merge_file`, `Config::merge_args`, `Config::into_config_file` and `Default for Config`
(src/config.rs) into a rule table `Generated/ConfigRules.lean`. Every statement of the two merge functions must match one of the known shapes;
anything else makes the translation fail (a broken obligation), nothing is skipped silently."""
import os
import re


def body_of(src, header):
    i = src.index(header)
    j = src.index("{", i)
    depth, k = 0, j
    while True:
        if src[k] == "{":
            depth += 1
        elif src[k] == "}":
            depth -= 1
            if depth == 0:
                return src[j + 1:k]
        k += 1


def norm(s):
    return re.sub(r"\s+", " ", s).strip()


def field(path):
    # self.crypto.password -> password ; self.device_type -> device_type
    return path.replace("self.", "").replace("crypto.", "")


def parse_merge(body, who):
    """returns dict field -> (rule, source key)"""
    rules = {}
    b = norm(body)
    # strip nested `if let Some(x) = file.x { ... }` wrappers by flattening: replace inner names
    def flatten(b):
        # if let Some(device) = file.device { BODY } -> BODY with device.name -> device.name (kept)
        out = b
        for sec in ("device", "beacon", "statsd"):
            m = re.search(r"if let Some\(%s\) = file\.%s \{" % (sec, sec), out)
            if m:
                # remove the wrapper braces
                start = m.start()
                j = m.end() - 1
                depth, k = 0, j
                while True:
                    if out[k] == "{":
                        depth += 1
                    elif out[k] == "}":
                        depth -= 1
                        if depth == 0:
                            break
                    k += 1
                out = out[:start] + out[j + 1:k] + out[k + 1:]
        return out
    b = flatten(b)
    pos = 0
    pats = [
        (r"if let Some\(val\) = ([\w.]+) \{ (self\.[\w.]+) = val;? \}", "override"),
        (r"if let Some\(val\) = ([\w.]+) \{ (self\.[\w.]+) = Some\(val\);? \}", "overrideSome"),
        (r"if let Some\(mut val\) = ([\w.]+) \{ (self\.[\w.]+)\.append\(&mut val\);? \}", "append"),
        (r"(self\.[\w.]+)\.append\(&mut ([\w.]+)\);", "appendAlways"),
        (r"if !([\w.]+)\.is_empty\(\) \{ (self\.[\w.]+) = [\w.]+\.clone\(\);? \}", "replaceNonEmpty"),
        (r"for \(k, v\) in ([\w.]+) \{ (self\.[\w.]+)\.insert\(k, v\);? \}", "mapInsert"),
        (r"if (args\.\w+) \{ (self\.[\w.]+) = true;? \}", "setTrue"),
        (r"if (args\.\w+) \{ (self\.[\w.]+) = false;? \}", "setFalse"),
        (r"for s in (args\.hook) \{ if s\.contains\(':'\) \{ let pos = s\.find\(':'\)\.unwrap\(\); let name = &s\[\.\.pos\]; let hook = &s\[pos \+ 1\.\.\]; (self\.hooks)\.insert\(name\.to_string\(\), hook\.to_string\(\)\); \} else \{ self\.hook = Some\(s\); \} \}", "hookSplit"),
    ]
    while pos < len(b):
        if b[pos] == " ":
            pos += 1
            continue
        for pat, kind in pats:
            m = re.compile(pat).match(b, pos)
            if m:
                if kind == "appendAlways":
                    dst, src = m.group(1), m.group(2)
                else:
                    src, dst = m.group(1), m.group(2)
                key = src.replace("file.", "").replace("args.", "").replace("crypto.", "")
                f = field(dst)
                if f in rules:
                    raise SystemExit("translate/configrules: field %s assigned twice in %s" % (f, who))
                rules[f] = (kind, key)
                if kind == "hookSplit":
                    rules["hook"] = ("hookPlain", key)
                pos = m.end()
                break
        else:
            raise SystemExit("translate/configrules: unrecognised statement in %s: %r" % (who, b[pos:pos + 90]))
    return rules


def parse_default(src, consts):
    body = body_of(src, "impl Default for Config")
    body = body_of("x" + body, "fn default() -> Self") if False else body
    inner = body[body.index("Config {") + len("Config {"):]
    inner = inner[:inner.rindex("}")]
    inner = inner[:inner.rindex("}")]
    res = {}
    for line in inner.split("\n"):
        line = line.strip().rstrip(",")
        if not line or ":" not in line:
            continue
        k, v = line.split(":", 1)
        k, v = k.strip(), v.strip()
        if k == "crypto":
            for ck in ("password", "private_key", "public_key"):
                res[ck] = ("opt", None)
            res["trusted_keys"] = ("list", [])
            res["algorithms"] = ("list", [])
            continue
        if v == "None":
            res[k] = ("opt", None)
        elif v in ("vec![]", "Vec::new()"):
            res[k] = ("list", [])
        elif v == "HashMap::new()":
            res[k] = ("map", [])
        elif v in ("true", "false"):
            res[k] = ("flag", v)
        elif re.match(r'"(.*)"\.to_string\(\)$', v):
            res[k] = ("scalar", re.match(r'"(.*)"\.to_string\(\)$', v).group(1))
        elif re.match(r"\d+$", v):
            res[k] = ("scalar", v)
        elif re.match(r"(\w+) as Duration$", v):
            res[k] = ("scalar", str(consts[re.match(r"(\w+) as Duration$", v).group(1)]))
        elif re.match(r"(Type|Mode)::(\w+)$", v):
            res[k] = ("scalar", re.match(r"(Type|Mode)::(\w+)$", v).group(2).lower())
        else:
            raise SystemExit("translate/configrules: unrecognised default %s: %s" % (k, v))
    return res


def parse_into_file(src):
    body = norm(body_of(src, "pub fn into_config_file(self) -> ConfigFile"))
    res = {}
    for m in re.finditer(r"(\w+): Some\(self\.([\w.]+)\)", body):
        res[field("self." + m.group(2))] = "some"
    for m in re.finditer(r"(\w+): self\.([\w.]+)[,} ]", body):
        f = field("self." + m.group(2))
        if f == "crypto":
            for ck in ("password", "private_key", "public_key", "trusted_keys", "algorithms"):
                res[ck] = "direct"
        else:
            res.setdefault(f, "direct")
    return res


def lstr(s):
    return '"' + s.replace("\\", "\\\\").replace('"', '\\"') + '"'


def generate(repo):
    src = open(os.path.join(repo, "src/config.rs")).read()
    consts = {m.group(1): int(m.group(2)) for m in re.finditer(r"pub const (\w+): u16 = (\d+);", src)}
    default = parse_default(src, consts)
    mf = parse_merge(body_of(src, "pub fn merge_file(&mut self, mut file: ConfigFile)"), "merge_file")
    ma = parse_merge(body_of(src, "pub fn merge_args(&mut self, mut args: Args)"), "merge_args")
    tofile = parse_into_file(src)
    out = ["/- GENERATED by /verif/translate/translate.py from src/config.rs (Default for Config, merge_file, merge_args, into_config_file) — do not edit. -/",
           "import VpnCloud.Model.Config", "namespace VpnCloud.Generated", "open VpnCloud.Config", "",
           "def configRules : List FieldRule := ["]
    rows = []
    for f, (kind, dv) in default.items():
        if kind == "opt":
            d = ".opt none"
        elif kind == "list":
            d = ".list []"
        elif kind == "map":
            d = ".map []"
        elif kind == "flag":
            d = ".flag %s" % dv
        else:
            d = ".scalar %s" % lstr(dv)
        fr, fk = mf.get(f, ("none", ""))
        ar, ak = ma.get(f, ("none", ""))
        tf = tofile.get(f, "absent")
        rows.append("  { name := %s, default := %s, file := .%s, fileKey := %s, arg := .%s, argKey := %s, toFile := .%s }" % (lstr(f), d, fr, lstr(fk), ar, lstr(ak), tf))
    for f in list(mf) + list(ma):
        if f not in default:
            raise SystemExit("translate/configrules: merge rule for unknown field " + f)
    out.append(",\n".join(rows))
    out += ["]", "", "end VpnCloud.Generated", ""]
    return "\n".join(out)
