"""Translates comparison guards of the Rust source — the conditions that decide expiry, liveness, replay and back-off — into Lean Boolean functions
(`Generated/Guards.lean`).  Each site is named by (file, a regular expression that must match EXACTLY ONCE (or `count` times with identical text) and
captures the condition, and the meaning of the source operands as parameters of the generated function).  The condition must have the shape
`operand OP operand` with OP one of < <= > >= == != and operands from the site's table or constant expressions (`A + B`, literals): anything else is a
translation failure, i.e. a broken obligation of every check (never a silent default).

The model (`Model/Node.lean`, `Model/Table.lean`, `Model/Core.lean`) calls these functions, so the theorems about expiry, liveness, replay windows and
back-off are re-checked on every run against the comparison the source contains now."""
import os
import re

# name, file, regex (group 1 = condition), count, parameter list (Lean), operand map (source text -> Lean term), doc
SITES = [
    ("peerExpired", "src/cloud.rs", r"for \(&addr, data\) in &self\.peers \{\s*if ([^{};]*?) \{\s*del\.push\(addr\);", 1,
     "(timeout now : Int)", {"data.timeout": "timeout", "now": "now"}, "GenericCloud::housekeep: a peer is timed out"),
    ("announceDue", "src/cloud.rs", r"// Periodically send peer list to peers\s*(?:let now = TS::now\(\);\s*)?if ([^{};]*?) \{", 1,
     "(nextPeers now : Int)", {"self.next_peers": "nextPeers", "now": "now"}, "GenericCloud::housekeep: the next announcement is due"),
    ("ownResetDue", "src/cloud.rs", r"if (self\.next_own_address_reset [^{};]*?) \{", 1,
     "(nextReset now : Int)", {"self.next_own_address_reset": "nextReset", "now": "now"}, "GenericCloud::housekeep: the list of own addresses is reset"),
    ("reconnectNotDue", "src/cloud.rs", r"if (entry\.next [^{};]*?) \{\s*continue;", 2,
     "(next now : Int)", {"entry.next": "next", "now": "now"}, "GenericCloud::reconnect_to_peers: the entry is not due yet (both loops)"),
    ("backoffDoubles", "src/cloud.rs", r"entry\.tries \+= 1;\s*if ([^{};]*?) \{\s*entry\.tries = 0;\s*entry\.timeout \*= 2;", 1,
     "(tries : Nat)", {"entry.tries": "tries"}, "GenericCloud::reconnect_to_peers: after this many tries the interval doubles"),
    ("backoffCapped", "src/cloud.rs", r"// Maximum interval is one hour\s*if ([^{};]*?) \{", 1,
     "(timeout : Nat)", {"entry.timeout": "timeout"}, "GenericCloud::reconnect_to_peers: the interval is capped"),
    ("cacheLive", "src/table.rs", r"self\.cache\.retain\(\|_, v\| (.*?)\);", 1,
     "(timeout now : Int)", {"v.timeout": "timeout", "now": "now"}, "ClaimTable::housekeep: a cached / learned entry survives the sweep"),
    ("claimLive", "src/table.rs", r"self\.claims\.retain\(\|e\| (.*?)\);", 1,
     "(timeout now : Int)", {"e.timeout": "timeout", "now": "now"}, "ClaimTable::housekeep: a claim survives the sweep"),
    ("nonceTooOld", "src/crypto/core.rs", r"if ([^{};]*?) \{\s*return Err\(Error::Crypto\(\"Old nonce rejected\"\)\);", 1,
     "(nonce minNonce : Nat)", {"nonce": "nonce", "key.min_nonce": "minNonce"}, "CryptoCore::decrypt_with_key: the counter is below the replay threshold"),
    ("seenAdvances", "src/crypto/core.rs", r"// last seen nonce\s*if ([^{};]*?) \{\s*key\.seen_nonce = nonce;", 1,
     "(seen nonce : Nat)", {"key.seen_nonce": "seen", "nonce": "nonce"}, "CryptoCore::decrypt_with_key: the highest accepted counter moves"),
    ("datagramTooShort", "src/crypto/core.rs", r"pub fn decrypt\(&mut self, buffer: &mut MsgBuffer\) -> Result<\(\), Error> \{\s*if ([^{};]*?) \{\s*return Err", 1,
     "(len : Nat)", {"buffer.len()": "len"}, "CryptoCore::decrypt: shorter than header plus tag"),
    ("keyIdInvalid", "src/crypto/core.rs", r"if (key_id [^{};]*?) \{\s*return Err", 1,
     "(keyId : Nat)", {"key_id": "keyId"}, "CryptoCore::decrypt: the key id names no key slot"),
    ("rotMsgStale", "src/crypto/rotate.rs", r"fn process_message\(&mut self, msg: RotationMessage\) -> Option<RotatedKey> \{\s*if ([^{};]*?) \{\s*return None;", 1,
     "(msgId selfId : Nat)", {"msg.message_id": "msgId", "self.message_id": "selfId"},
     "RotationState::process_message: a rotation message that is not newer than the last one handled is ignored"),
    ("retryAllowed", "src/crypto/init.rs", r"\} else if ([^{};]*?) \{\s*self\.failed_retries \+= 1;\s*self\.repeat_last_message\(out\);", 1,
     "(retries : Nat)", {"self.failed_retries": "retries"},
     "InitState::every_second: the stored handshake message is sent once more"),
]

OPS = {"<=": "≤", ">=": "≥", "==": "=", "!=": "≠", "<": "<", ">": ">"}
CONST_RE = re.compile(r"^[A-Z][A-Z0-9_]*$")


def operand(text, table, site):
    text = text.strip()
    if text.startswith("*"):
        text = text[1:].strip()
    if text in table:
        return table[text]
    parts = [p.strip() for p in text.split("+")]
    out = []
    for p in parts:
        if p.isdigit():
            out.append(p)
        elif CONST_RE.match(p):
            out.append(p)
        else:
            raise SystemExit("translate/guards: %s: cannot translate operand %r" % (site, text))
    return " + ".join(out)


def translate_condition(cond, table, site):
    m = re.match(r"^(.*?)\s*(<=|>=|==|!=|<|>)\s*(.*)$", cond.strip(), re.S)
    if not m or any(x in cond for x in ("&&", "||", "!(", " as ")):
        raise SystemExit("translate/guards: %s: condition %r is not `operand OP operand`" % (site, cond))
    return "%s %s %s" % (operand(m.group(1), table, site), OPS[m.group(2)], operand(m.group(3), table, site))


def generate(repo):
    out = ["/- GENERATED by /verif/translate/translate.py (guards.py) from comparison guards in src/cloud.rs, src/table.rs, src/crypto/core.rs, src/crypto/rotate.rs, src/crypto/init.rs — do not edit. -/",
           "import VpnCloud.Generated.Consts", "namespace VpnCloud.Generated", ""]
    for name, rel, rx, count, params, table, doc in SITES:
        src = open(os.path.join(repo, rel)).read()
        found = re.findall(rx, src, re.S)
        if len(found) != count or len(set(" ".join(f.split()) for f in found)) != 1:
            raise SystemExit("translate/guards: %s: expected %d occurrence(s) of the guard in %s with one text, found %r" % (name, count, rel, found))
        cond = " ".join(found[0].split())
        out.append("/-- %s — source: `%s` -/" % (doc, cond))
        out.append("@[simp] def %s %s : Bool := decide (%s)" % (name, params, translate_condition(cond, table, name)))
        out.append("")
    out.append("end VpnCloud.Generated")
    return "\n".join(out) + "\n"
