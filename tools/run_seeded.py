#!/usr/bin/env python3
"""tools/run_seeded.py [ids…]: apply every seeded change under /verif/seeded to /repo, run the quick check of the property it breaks
(plus any extra checks listed in EXTRA), undo it, and record the outcome in meta.json (`detected_by`) and seeded/RESULTS.md.
Never leaves /repo modified."""
import json, os, re, subprocess, sys, time

ROOT = os.path.dirname(os.path.dirname(os.path.abspath(__file__)))
REPO = os.environ.get("VERIF_REPO", "/repo")   # tools/sweep_parallel.py runs shards in copies of /verif against scratch worktrees of /repo
EXTRA = {"C02B": ["C08", "C05"], "C10B": ["C08"], "C09B": ["C03"], "C13A": ["C19"], "C12B": ["C13"], "C08A": ["C16"], "C16B": ["C08"]}

def sh(cmd, **kw):
    p = subprocess.run(cmd, shell=True, stdout=subprocess.PIPE, stderr=subprocess.STDOUT, text=True, **kw)
    return p.returncode, p.stdout

def main():
    ids = sys.argv[1:] or sorted(os.listdir(os.path.join(ROOT, "seeded")))
    rows = []
    for sid in ids:
        d = os.path.join(ROOT, "seeded", sid)
        if not os.path.isdir(d) or not os.path.exists(os.path.join(d, "patch.diff")):
            continue
        meta = json.load(open(os.path.join(d, "meta.json")))
        prop = meta["property"]
        rc, out = sh("git -C %s status --porcelain" % REPO)
        assert out.strip() == "", REPO + " is not clean: " + out
        rc, out = sh("git -C %s apply %s/patch.diff" % (REPO, d))
        if rc != 0:
            rows.append((sid, prop, "patch does not apply", ""))
            continue
        res = {}
        try:
            for chk in [prop] + EXTRA.get(sid, []):
                t0 = time.time()
                rc, out = sh("timeout 1500 ./check %s quick" % chk, cwd=ROOT)
                v = [l for l in out.split("\n") if l.startswith("VIOLATION")]
                kind = "not detected"
                if v:
                    kind = "violation with failing input" if "no-failing-input-found" not in v[0] else "violation, no failing input found (broken obligation / correspondence)"
                res[chk] = {"rc": rc, "result": kind, "seconds": round(time.time() - t0, 1)}
        finally:
            sh("git -C %s checkout -- ." % REPO)
        meta["detected_by"] = res
        json.dump(meta, open(os.path.join(d, "meta.json"), "w"), indent=1)
        rows.append((sid, prop, "; ".join("%s: %s" % (k, v["result"]) for k, v in res.items()), ""))
        print(sid, res, flush=True)
    # the checks regenerate lean/VpnCloud/Generated from whatever /repo contained: bring it back to the unchanged tree
    sh("%s %s/translate/translate.py %s %s/lean/VpnCloud/Generated" % (sys.executable, ROOT, REPO, ROOT))
    write_results()


def write_results():
    """RESULTS.md lists every seeded change with the outcome recorded in its meta.json (the last run of this tool for that change)"""
    with open(os.path.join(ROOT, "seeded", "RESULTS.md"), "w") as f:
        f.write("# Seeded changes and the checks that catch them (written by tools/run_seeded.py)\n\n| change | property | outcome of the quick checks |\n|---|---|---|\n")
        for sid in sorted(os.listdir(os.path.join(ROOT, "seeded"))):
            mp = os.path.join(ROOT, "seeded", sid, "meta.json")
            if not os.path.exists(mp):
                continue
            meta = json.load(open(mp))
            det = meta.get("detected_by")
            r = "; ".join("%s: %s" % (k, v["result"]) for k, v in det.items()) if det else "not run yet"
            f.write("| %s | %s | %s |\n" % (sid, meta["property"], r))

if __name__ == "__main__":
    main()
