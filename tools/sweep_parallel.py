#!/usr/bin/env python3
"""tools/sweep_parallel.py <shards> [ids…]: run tools/run_seeded.py over all (or the named) seeded changes in <shards> parallel shards.

Each shard works in its own copy of /verif (/tmp/sw/<k>/verif, with the built Lean and cargo outputs) against its own scratch worktree of
/repo's HEAD (/tmp/sw/<k>/repo, passed as VERIF_REPO), so /repo itself is never touched and the shards do not share a build directory.
Afterwards the meta.json of every change is copied back to /verif/seeded, seeded/RESULTS.md is rewritten, and the copies and worktrees are
removed.  Development aid: the registered checks and the evidence always come from /verif run against /repo itself."""
import json, os, shutil, subprocess, sys
ROOT = os.path.dirname(os.path.dirname(os.path.abspath(__file__)))
sys.path.insert(0, os.path.join(ROOT, "tools"))


def sh(cmd, **kw):
    return subprocess.run(cmd, shell=True, stdout=subprocess.PIPE, stderr=subprocess.STDOUT, text=True, **kw)


def main():
    n = int(sys.argv[1])
    ids = sys.argv[2:] or sorted(d for d in os.listdir(os.path.join(ROOT, "seeded")) if os.path.exists(os.path.join(ROOT, "seeded", d, "patch.diff")))
    assert sh("git -C /repo status --porcelain").stdout.strip() == "", "/repo is not clean"
    shards = [ids[k::n] for k in range(n)]
    procs = []
    for k, part in enumerate(shards):
        base = "/tmp/sw/%d" % k
        os.makedirs(base, exist_ok=True)
        sh("git -C /repo worktree remove --force %s/repo" % base)
        assert sh("git -C /repo worktree add -q --detach %s/repo HEAD" % base).returncode == 0
        assert sh("rsync -a --delete --exclude .git --exclude .build/run --exclude .build/coverage --exclude .build/replays %s/ %s/verif/" % (ROOT, base)).returncode == 0
        log = open("%s/log" % base, "w")
        procs.append(subprocess.Popen([sys.executable, "%s/verif/tools/run_seeded.py" % base] + part, stdout=log, stderr=subprocess.STDOUT,
                                      env=dict(os.environ, VERIF_REPO="%s/repo" % base), cwd="%s/verif" % base))
    for p in procs:
        p.wait()
    for k, part in enumerate(shards):
        base = "/tmp/sw/%d" % k
        for sid in part:
            src = "%s/verif/seeded/%s/meta.json" % (base, sid)
            if os.path.exists(src):
                shutil.copy(src, os.path.join(ROOT, "seeded", sid, "meta.json"))
        sys.stdout.write(open("%s/log" % base).read())
        sh("git -C /repo worktree remove --force %s/repo" % base)
        shutil.rmtree(base, ignore_errors=True)
    import run_seeded
    run_seeded.write_results()


if __name__ == "__main__":
    main()
