#!/usr/bin/env python3
"""Prints the per-property table of property theorems and suites (Appendix C of DESIGN.md) from vlib/props."""
import importlib, os, sys
ROOT = os.path.dirname(os.path.dirname(os.path.abspath(__file__)))
sys.path.insert(0, ROOT)
print("| property | Lean modules | property theorems (all audited with `#print axioms` on every run) | suites |")
print("|---|---|---|---|")
for i in range(1, 21):
    pid = "C%02d" % i
    try:
        p = importlib.import_module("vlib.props." + pid)
    except Exception as e:
        print("| %s | - | (no check) | - |" % pid)
        continue
    names = [t.split(".")[-1] for t in p.THEOREMS]
    print("| %s | %s | %s | %s |" % (pid, ", ".join(m.replace("VpnCloud.", "") for m in p.LEAN_MODULES), ", ".join("`%s`" % n for n in names) or "(pending)", ", ".join(p.SUITES)))
