#!/bin/sh
# usage: tools/try_mutant.sh <patch.diff> <property id>...   — apply to /repo, run quick checks, undo.
patch="$1"; shift
git -C /repo apply "$patch" || { echo "patch does not apply"; exit 2; }
for id in "$@"; do
  echo "== $id with $(basename "$patch")"
  /verif/check "$id" quick 2>&1 | grep -E "VIOLATION|KNOWN-FINDING|tier:|obligation FAILED" 
  echo "rc=$?"
done
git -C /repo checkout -- .
python3 /verif/translate/translate.py /repo /verif/lean/VpnCloud/Generated
