#!/usr/bin/env python3
"""tools/setup_mutation_round.py <letters> <ids…>: prepare scratch worktrees /tmp/mut/<id> (detached checkout of /repo HEAD) with OUT/PROPERTY.txt and
OUT/PROMPT.txt for independent mutation sub-agents.  The prompt contains only the property's text (statement + quantifier) and, so that a later round does not
repeat an earlier one, the one-line titles of the changes already kept under /verif/seeded for that property.  Nothing else from /verif is given."""
import json, os, subprocess, sys
letters = sys.argv[1]          # e.g. "CD"
ids = sys.argv[2:]
props = {json.loads(l)["id"]: json.loads(l) for l in open("/verif/properties.jsonl")}
for pid in ids:
    wt = "/tmp/mut/%s" % pid
    if not os.path.isdir(wt):
        subprocess.check_call(["git", "-C", "/repo", "worktree", "add", "-q", "--detach", wt, "HEAD"])
    os.makedirs(wt + "/OUT", exist_ok=True)
    os.makedirs(wt + "/target", exist_ok=True)
    p = props[pid]
    text = "%s: %s\n\nStatement: %s\n\nQuantifier: %s\n" % (pid, p["title"], p["statement"], p["quantifier"]["text"])
    open(wt + "/OUT/PROPERTY.txt", "w").write(text)
    tried = []
    for d in sorted(os.listdir("/verif/seeded")):
        if d.startswith(pid) and os.path.exists("/verif/seeded/%s/notes.md" % d):
            tried.append(open("/verif/seeded/%s/notes.md" % d).readline().strip().lstrip("# "))
    L1, L2 = letters[0], letters[1]
    prompt = f"""You are helping to test a verification framework by seeding a realistic bug into a Rust project.

Work ONLY inside the git worktree {wt} (a detached checkout of the Rust project dswd/vpncloud, a peer-to-peer mesh VPN). Never read, list or modify /verif or /repo, and do not look at other directories under /tmp/mut. The sandbox has no network: always pass --offline to cargo and set CARGO_NET_OFFLINE=true. Use CARGO_TARGET_DIR={wt}/target for every cargo command (the first build takes about a minute). Some tests write to `target/.vpncloud_test` relative to the worktree: the directory {wt}/target exists for that.

Here is a semantic property that the project is supposed to satisfy (also in {wt}/OUT/PROPERTY.txt):

{text}

Your task: produce TWO independent source changes ("mutants", {L1} and {L2}, touching different mechanisms where possible) to files under src/ that each BREAK this property, while the project still compiles and the existing test suite still passes completely (`CARGO_NET_OFFLINE=true CARGO_TARGET_DIR={wt}/target cargo test --offline` must report 71 passed, 0 failed; two tests with 100 ms sleeps — beacon::encode_decode_cmd / connect_via_beacons — can fail under machine load also on the unmodified tree: re-run those alone). Each change must look like a plausible developer mistake or a plausible "harmless-looking refactoring" (wrong comparison operator, off-by-one, missing or misplaced check, swapped order of two steps, wrong constant, state not reset/not updated on one path, an `Option`/`Result` handled on the wrong branch, a saturating/wrapping arithmetic slip, two cooperating sites that each look fine alone ...), NOT a blatant sabotage, and it must need something specific to manifest: a particular interleaving, a fault at a particular point, a multi-step sequence of operations, an unusual input, a boundary value. Avoid changes that ordinary use would expose at once. Keep each change small (a few lines). Ignore the modules named verif_hooks / verif_driver and anything under #[cfg(dswd_vpncloud_verif)]: do not change or rely on them.

An earlier round already produced these changes for this property; do NOT repeat them or close variants — choose other mechanisms, other code sites, other parts of the property's statement (read the whole statement: every clause is fair game, and so is every file that takes part in the behaviour):
{chr(10).join("  - " + t for t in tried)}

For each mutant also write a demonstration: a new Rust test (add a #[test] function inside an existing #[cfg(test)] module or in src/tests/, wherever it has access to what it needs) that FAILS with the mutant applied and PASSES on the unmodified code. The demonstration must show the property violation itself (the observable behaviour the property talks about), not merely that some internal value differs.

Deliverables, all in {wt}/OUT/ :
  {L1}.patch.diff   - `git diff` of mutant {L1}'s source change only (must apply with `git apply` to the unmodified worktree HEAD)
  {L1}.demo.diff    - `git diff` that adds only mutant {L1}'s demonstration test to the unmodified worktree HEAD
  {L1}.notes.md     - first line: `# Mutant {L1} - <one-line title>`; then: which part of the property it breaks, what is needed for it to manifest, the name of the demo test, and the exact commands you ran with their results: (1) full test suite with the mutant (71 passed), (2) demo test on unmodified code (passes), (3) demo test with the mutant (fails, with the assertion message)
  {L2}.patch.diff, {L2}.demo.diff, {L2}.notes.md - likewise for mutant {L2}
Both patch.diff and demo.diff must apply together (they may touch the same file but must not conflict). Verify this yourself: from a clean worktree `git apply OUT/{L1}.patch.diff OUT/{L1}.demo.diff` must succeed.
When you are done leave the worktree's tracked files unmodified (`git checkout -- .` and remove untracked source files you created), keeping only OUT/ and target/. Never run `git stash` (the stash is shared between worktrees). If you can find only one good mutant, deliver one and say so. Your final answer should be a 5-line summary of the two mutants.
"""
    open(wt + "/OUT/PROMPT.txt", "w").write(prompt)
    print("prepared", wt)
