#!/usr/bin/env python3
"""Rewrites the generated parts of DESIGN.md: the theorem table of Appendix C (from vlib/props) between its markers."""
import os, subprocess
ROOT = os.path.dirname(os.path.dirname(os.path.abspath(__file__)))
p = os.path.join(ROOT, "DESIGN.md")
s = open(p).read()
b, e = "<!-- BEGIN THEOREM TABLE (python3 tools/gen_design_tables.py) -->\n", "<!-- END THEOREM TABLE -->\n"
i, j = s.index(b), s.index(e)
table = subprocess.check_output(["python3", os.path.join(ROOT, "tools", "gen_design_tables.py")], text=True)
open(p, "w").write(s[:i] + b + table + s[j:])
