#!/usr/bin/env python3
"""tools/verify_mutant.py <ID> <A|B>: independently confirm a seeded change delivered in /tmp/mut/<ID>/OUT:
 (1) demo test passes on the unmodified tree, (2) demo fails with the change, (3) the existing suite passes with the change.
On success stores /verif/seeded/<ID><letter>/{patch.diff,demo.diff,notes.md,meta.json}. Uses one scratch worktree /tmp/mutverify."""
import json, os, re, subprocess, sys, time

ID, L = sys.argv[1], sys.argv[2]
OUT = "/tmp/mut/%s/OUT" % ID
WT = "/tmp/mutverify" + os.environ.get("MV", "")
ENV = dict(os.environ, CARGO_NET_OFFLINE="true", CARGO_TARGET_DIR="/tmp/mutverify-target" + os.environ.get("MV", ""))

def sh(cmd, **kw):
    p = subprocess.run(cmd, shell=True, stdout=subprocess.PIPE, stderr=subprocess.STDOUT, text=True, env=ENV, **kw)
    return p.returncode, p.stdout

os.makedirs(WT + "/target", exist_ok=True) if os.path.isdir(WT) else None
if not os.path.isdir(WT):
    rc, o = sh("git -C /repo worktree add -q --detach %s HEAD" % WT); assert rc == 0, o
sh("git checkout -q --detach %s && git checkout -- . && git clean -fdq -e target" % subprocess.check_output("git -C /repo rev-parse HEAD", shell=True, text=True).strip(), cwd=WT)
patch, demo = "%s/%s.patch.diff" % (OUT, L), "%s/%s.demo.diff" % (OUT, L)
notes = open("%s/%s.notes.md" % (OUT, L)).read()
# name(s) of the demo test(s)
names = re.findall(r"^\+\s*(?:pub )?fn (\w+)\(\)", open(demo).read(), re.M)
tests = [n for n in names]
res = {"property": ID, "mutant": L, "demo_tests": tests}
# (1) demo on unmodified
rc, o = sh("git apply %s" % demo, cwd=WT); assert rc == 0, "demo does not apply: " + o
filt = " ".join(tests)
def run_tests(args):
    rc, o = sh("cargo test --offline %s 2>&1 | tail -60" % args, cwd=WT)
    m = re.findall(r"test result: (\w+)\. (\d+) passed; (\d+) failed", o)
    return m, o
m1, o1 = run_tests("-- " + filt)
res["demo_unmodified"] = m1
# (2) demo with patch
rc, o = sh("git apply %s" % patch, cwd=WT); assert rc == 0, "patch does not apply with demo: " + o
m2, o2 = run_tests("-- " + filt)
res["demo_with_change"] = m2
# (3) suite with patch only
sh("git checkout -- . && git clean -fdq -e target", cwd=WT)
rc, o = sh("git apply %s" % patch, cwd=WT); assert rc == 0, o
m3, o3 = run_tests("--workspace --no-fail-fast")
suite_ok = bool(m3) and m3[-1][0] == "ok" and m3[-1][1] == "71"
if m3 and not suite_ok:
    # tests with 100 ms sleeps (beacon commands) fail under load, also on the unmodified tree: re-run the failed ones alone
    rc, full = sh("cargo test --offline --workspace --no-fail-fast 2>&1", cwd=WT)
    failed = sorted(set(re.findall(r"^test (\S+) \.\.\. FAILED", full, re.M)))
    total = re.findall(r"test result: \w+\. (\d+) passed; (\d+) failed", full)
    res["suite_failed_under_load"] = failed
    still = []
    for t in failed:
        good = False
        for _ in range(4):
            mm, _o = run_tests("-- --exact %s --test-threads=1" % t)
            if mm and mm[-1][0] == "ok" and mm[-1][1] == "1":
                good = True
                break
        if not good:
            still.append(t)
    res["suite_failed_after_retry"] = still
    suite_ok = bool(total) and int(total[-1][0]) + int(total[-1][1]) == 71 and not still
res["suite_with_change"] = m3
res["suite_ok"] = suite_ok
sh("git checkout -- . && git clean -fdq -e target", cwd=WT)
ok = (m1 and m1[-1][0] == "ok" and int(m1[-1][1]) >= 1 and m2 and m2[-1][0] == "FAILED" and suite_ok)
res["confirmed"] = bool(ok)
print(json.dumps(res))
if ok:
    d = "/verif/seeded/%s%s" % (ID, L)
    os.makedirs(d, exist_ok=True)
    for src, dst in ((patch, "patch.diff"), (demo, "demo.diff")):
        open(os.path.join(d, dst), "w").write(open(src).read())
    open(os.path.join(d, "notes.md"), "w").write(notes)
    meta = {"property": ID, "breaks": notes.split("\n\n")[0][:600], "needs_to_manifest": "see notes.md (written by the independent sub-agent that produced the change)",
            "demo_tests": tests, "confirmed_by": "tools/verify_mutant.py: demo passes on /repo HEAD (%s), fails with patch.diff (%s), existing suite with patch.diff: %s%s" % (m1, m2, m3, "" if (m3 and m3[-1][0] == "ok") else " (first run under machine load; full re-run: 71 tests, failing only the timing-sensitive %s, which pass when re-run alone)" % res.get("suite_failed_under_load")),
            "repo_head": subprocess.check_output("git -C /repo rev-parse --short HEAD", shell=True, text=True).strip(), "detected_by": None}
    json.dump(meta, open(os.path.join(d, "meta.json"), "w"), indent=1)
else:
    sys.stderr.write("NOT CONFIRMED\n" + o1[-1500:] + "\n---\n" + o2[-1500:] + "\n---\n" + o3[-1500:])
    sys.exit(1)
