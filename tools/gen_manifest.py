#!/usr/bin/env python3
"""Regenerates /verif/MANIFEST.json from the property modules under vlib/props."""
import importlib
import json
import os
import subprocess
import sys

ROOT = os.path.dirname(os.path.dirname(os.path.abspath(__file__)))
sys.path.insert(0, ROOT)

from vlib.props import _levels  # noqa: E402

ALL = ["C%02d" % i for i in range(1, 21)]


def main():
    checks, na = [], []
    for pid in ALL:
        path = os.path.join(ROOT, "vlib", "props", pid + ".py")
        if not os.path.exists(path):
            na.append({"property_id": pid, "reason": "check not built yet in this round (planned: Lean model + proofs + correspondence, see DESIGN.md section 5); not a limit of the technique"})
            continue
        p = importlib.import_module("vlib.props." + pid)
        if not p.THEOREMS:
            na.append({"property_id": pid, "reason": "model, Spec oracle and correspondence suite run, but the Lean property theorems are still being proved; claimed as soon as they check"})
            continue
        checks.append({
            "property_id": pid,
            "quick_cmd": "./check %s quick" % pid,
            "thorough_cmd": "./check %s thorough" % pid,
            "evidence_file": "/verif/evidence/%s.json" % pid,
            "replay_cmd_template": "./check %s --replay {path}" % pid,
            "engine": "lean4-model-proof+correspondence",
            "level_claimed": {"category": "proof", "text": _levels.level_text(pid, p.LEVEL_TEXT), "design_ref": p.DESIGN_REF},
            "level_note": _levels.level_note(pid, p.LEVEL_NOTE),
            "technique": p.TECHNIQUE,
        })
    commits = subprocess.run(["git", "-C", "/repo", "log", "--format=%h %s", "--grep=^verif hooks"], stdout=subprocess.PIPE, text=True).stdout.strip().split("\n")
    man = {
        "version": 1,
        "setup_cmd": "./setup.sh",
        "hooks": {
            "guard": "--cfg dswd_vpncloud_verif",
            "enable": "cd /repo && RUSTFLAGS='--cfg dswd_vpncloud_verif -A unused -A unexpected_cfgs' VPNCLOUD_VERIF_DRIVER_DIR=/verif/harness CARGO_TARGET_DIR=/verif/.build/target CARGO_NET_OFFLINE=true cargo build --offline   (the driver runs as: VPNCLOUD_VERIF=1 /verif/.build/target/debug/vpncloud < ops)",
            "baseline_off_cmd": "cd /repo && CARGO_NET_OFFLINE=true cargo test --workspace --no-fail-fast --offline",
            "source_commits": [c.split(" ")[0] for c in commits if c],
            "add_only": True,
        },
        "engines": [{
            "name": "lean4-model-proof+correspondence",
            "path": "/verif/lean (model, spec, proofs, vpmodel driver), /verif/harness (Rust driver compiled into the crate), /verif/vlib (orchestrator), /verif/translate (source -> Generated/*.lean)",
            "serves_properties": [c["property_id"] for c in checks],
            "kind_free_text": "machine-checked proof in Lean 4 about an executable model; model tied to /repo by a correspondence run (real code vs model on the same operation scripts) and by regenerated constants; executable Spec evaluated on the implementation's transcript to find failing inputs",
        }],
        "checks": checks,
        "not_applicable": na,
        "notes": "See DESIGN.md. KNOWN_FINDINGS.txt lists fixed and known findings. Every check rebuilds /repo's working tree with the guard on (incremental).",
    }
    with open(os.path.join(ROOT, "MANIFEST.json"), "w") as f:
        json.dump(man, f, indent=1)
        f.write("\n")


if __name__ == "__main__":
    main()
