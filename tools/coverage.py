#!/usr/bin/env python3
"""tools/coverage.py [quick|thorough] [ids…]: which lines of vpncloud do the correspondence suites execute?

Development aid, not part of any check: builds /repo's HEAD (a scratch worktree under /tmp) with the hooks on and `-C instrument-coverage`
(nightly toolchain: it ships llvm-profdata / llvm-cov), feeds the operation scripts of every property's generator (corpus + gen(tier)) to
that binary only (no model run, no comparison), and writes
  /verif/.build/coverage/<tier>/report.txt      llvm-cov report per source file
  /verif/.build/coverage/<tier>/uncovered.txt   per anchored source file: the executable lines no script reached
The numbers tell where a generator is blind; a mutant in a line no script executes cannot be seen by the correspondence."""
import glob, importlib, json, os, subprocess, sys
sys.path.insert(0, os.path.dirname(os.path.dirname(os.path.abspath(__file__))))
from vlib import core, runner  # noqa: E402

WT, TARGET, PROF = "/tmp/covrepo", "/tmp/covtarget", "/tmp/covprof"
TOOLS = glob.glob(os.path.expanduser("~/.rustup/toolchains/nightly-x86_64-unknown-linux-gnu/lib/rustlib/*/bin"))[0]


def sh(cmd, **kw):
    return subprocess.run(cmd, shell=True, stdout=subprocess.PIPE, stderr=subprocess.STDOUT, text=True, **kw)


def build():
    if not os.path.isdir(WT):
        assert sh("git -C /repo worktree add -q --detach %s HEAD" % WT).returncode == 0
    sh("git checkout -q --detach $(git -C /repo rev-parse HEAD) && git checkout -- .", cwd=WT)
    env = dict(os.environ, RUSTFLAGS="--cfg dswd_vpncloud_verif -A unused -A unexpected_cfgs -A warnings -C instrument-coverage",
               VPNCLOUD_VERIF_DRIVER_DIR=core.HARNESS, CARGO_TARGET_DIR=TARGET, CARGO_NET_OFFLINE="true",
               LLVM_PROFILE_FILE=PROF + "/build-%p.profraw")
    p = sh("cargo +nightly build --offline", cwd=WT, env=env)
    assert p.returncode == 0, p.stdout[-3000:]


def main():
    args = sys.argv[1:]
    tier = "quick"
    if args and args[0] in ("quick", "thorough"):
        tier = args.pop(0)
    ids = args or ["C%02d" % i for i in range(1, 21)]
    os.makedirs(PROF, exist_ok=True)
    build()
    for f in glob.glob(PROF + "/*.profraw"):
        os.remove(f)
    binary = TARGET + "/debug/vpncloud"
    for pid in ids:
        prop = importlib.import_module("vlib.props." + pid)
        rng = core.SplitMix64(1)
        scripts = runner.load_corpus(prop) + list(prop.gen(tier, rng.fork("gen")))
        lines = []
        for s in scripts:
            lines.append("reset")
            lines.extend(s.ops)
        ops = "%s/%s.ops" % (PROF, pid)
        open(ops, "w").write("\n".join(lines) + "\n")
        with open(ops) as fin:
            subprocess.run([binary], stdin=fin, stdout=subprocess.DEVNULL, stderr=subprocess.DEVNULL,
                           env=dict(os.environ, VPNCLOUD_VERIF="1", LLVM_PROFILE_FILE="%s/%s-%%p.profraw" % (PROF, pid)), cwd=WT)
        print(pid, len(scripts), "scripts", len(lines), "ops", flush=True)
    out = os.path.join(core.BUILD, "coverage", tier)
    os.makedirs(out, exist_ok=True)
    raws = [f for f in glob.glob(PROF + "/C*.profraw")]
    assert sh("%s/llvm-profdata merge -sparse %s -o %s/all.profdata" % (TOOLS, " ".join(raws), PROF)).returncode == 0
    rep = sh("%s/llvm-cov report %s -instr-profile=%s/all.profdata --ignore-filename-regex='(registry|rustc|harness)' " % (TOOLS, binary, PROF))
    open(out + "/report.txt", "w").write(rep.stdout)
    anchored = set()
    for l in open(os.path.join(core.ROOT, "properties.jsonl")):
        anchored.update(json.loads(l).get("anchors", {}).get("files", []))
    with open(out + "/uncovered.txt", "w") as f:
        for src in sorted(anchored):
            path = os.path.join(WT, src)
            if not os.path.exists(path):
                continue
            show = sh("%s/llvm-cov show %s -instr-profile=%s/all.profdata %s --show-line-counts-or-regions=false" % (TOOLS, binary, PROF, path)).stdout
            # skip #[cfg(test)] modules and the hook modules at the end of the file
            miss, in_test = [], False
            for line in show.split("\n"):
                parts = line.split("|", 2)
                if len(parts) < 3:
                    continue
                text = parts[2]
                if "#[cfg(test)]" in text or "cfg(dswd_vpncloud_verif)" in text:
                    in_test = True
                if in_test:
                    continue
                if parts[1].strip() == "0":
                    miss.append("%6s| %s" % (parts[0].strip(), text))
            f.write("== %s: %d executable lines never reached\n%s\n\n" % (src, len(miss), "\n".join(miss)))
    print(rep.stdout[-2500:])


if __name__ == "__main__":
    main()
