#!/usr/bin/env python3
"""Record the fingerprints of the source files the properties are anchored in, taken from /repo's HEAD
(never from a working tree that may carry an applied change).  Run after the model has been validated
against that HEAD (all checks pass)."""
import json, os, subprocess, sys
sys.path.insert(0, os.path.join(os.path.dirname(__file__), ".."))
from vlib import core

files = set()
for l in open(os.path.join(core.ROOT, "properties.jsonl")):
    files.update(json.loads(l).get("anchors", {}).get("files", []))
head = subprocess.check_output(["git", "-C", core.REPO, "rev-parse", "HEAD"], text=True).strip()
out = {}
for f in sorted(files):
    text = subprocess.check_output(["git", "-C", core.REPO, "show", "HEAD:" + f], text=True, errors="replace")
    out[f] = core.fingerprint_text(text)
json.dump({"repo_head": head, "files": out}, open(core.FINGERPRINTS, "w"), indent=1, sort_keys=True)
print("wrote", core.FINGERPRINTS, len(out), "files at", head[:10])
